"""Reference model of the text formats, written from the format specifications.

Shares no code with bionumpy: plain bytes / str / int() / float().

A *record* is a dict  {'texts': {field: source text}, 'extra_cols': [text, ...]}  — the values the format
assigns are derived from the texts by `value_of(kind, text)`.

serialize(fmt, records, style) -> (bytes, layout) where layout lists for every record its byte span,
the span and text of each field and the (zero-based, counted from the start of the data, i.e. after the
header) index of its first line.
"""
import math

# field kinds
#  id      identifier (SequenceID)           -> str
#  str     free text, may be empty at low weight -> str
#  int     non-negative integer text            -> int
#  sint    signed integer text                  -> int
#  float   decimal / scientific float text      -> float
#  optint  integer or '.'                       -> int | MISSING
#  strand  one of + - .                         -> str
#  seq     sequence letters                     -> str
#  qual    phred+33 string                      -> [int]
#  listint comma list of ints                   -> [int]
#  rest    all remaining columns of the line joined by tab (SAM tags) -> str
#  pos1    1-based integer text whose value is text-1 (VCF POS)      -> int

MISSING = "<missing>"


class Fmt:
    def __init__(self, name, suffix, fields, layout="tsv", buffer=None, header=None, lazy_capable=True,
                 dataclass=None, allow_extra=False, bufpath=None, prefix=(), interior_comments=False):
        self.name = name
        self.suffix = suffix          # file suffix that selects the buffer in bnp.open (or with buffer=)
        self.fields = fields          # [(field_name, kind)]
        self.layout = layout          # tsv | fasta2 | fastaw | fastq
        self.buffer = buffer          # attribute path of an explicit buffer_type, None => by suffix
        self.header = header          # None | 'vcf' | 'sam' | 'hash'
        self.lazy_capable = lazy_capable
        self.dataclass = dataclass    # name in bionumpy.datatypes (for writing, C03)
        self.allow_extra = allow_extra  # trailing columns beyond the entry type are legal
        self.bufpath = bufpath or buffer  # import path of the buffer class (handle route)
        self.prefix = list(prefix)    # constant leading columns that are not fields of the entry type (GFA 'S')
        self.interior_comments = interior_comments   # '#' lines may appear between records (GFF3, wig-style bedGraph)

    def field_names(self):
        return [f for f, _ in self.fields]


FORMATS = {}


def _reg(f):
    FORMATS[f.name] = f
    return f


BED3 = _reg(Fmt("bed3", ".bed", [("chromosome", "id"), ("start", "int"), ("stop", "int")],
                dataclass="Interval", allow_extra=True, bufpath="bionumpy.io.delimited_buffers.BedBuffer"))
BED6 = _reg(Fmt("bed6", ".bed", [("chromosome", "id"), ("start", "int"), ("stop", "int"), ("name", "id"),
                                 ("score", "optint"), ("strand", "strand")],
                buffer="bionumpy.io.delimited_buffers.Bed6Buffer", dataclass="Bed6", allow_extra=True))
BED12 = _reg(Fmt("bed12", ".bed", [("chromosome", "id"), ("start", "int"), ("stop", "int"), ("name", "id"),
                                   ("score", "optint"), ("strand", "strand"), ("thick_start", "int"),
                                   ("thick_end", "int"), ("item_rgb", "rgb"), ("block_count", "int"),
                                   ("block_sizes", "listint"), ("block_starts", "listint")],
                 buffer="bionumpy.io.delimited_buffers.Bed12Buffer", dataclass="Bed12"))
BDG = _reg(Fmt("bdg", ".bdg", [("chromosome", "id"), ("start", "int"), ("stop", "int"), ("value", "float")],
               dataclass="BedGraph", bufpath="bionumpy.io.delimited_buffers.BdgBuffer"))
NARROWPEAK = _reg(Fmt("narrowpeak", ".narrowPeak",
                      [("chromosome", "id"), ("start", "int"), ("stop", "int"), ("name", "id"),
                       ("score", "optint"), ("strand", "strand"), ("signal_value", "float"),
                       ("p_value", "float"), ("q_value", "float"), ("summit", "sint")],
                      dataclass="NarrowPeak", bufpath="bionumpy.io.delimited_buffers.NarrowPeakBuffer"))
SIZES = _reg(Fmt("sizes", ".sizes", [("name", "str1"), ("size", "int")], dataclass="ChromosomeSize", bufpath="bionumpy.io.delimited_buffers.ChromosomeSizeBuffer"))
GTF = _reg(Fmt("gtf", ".gtf", [("chromosome", "id"), ("source", "str1"), ("feature_type", "str1"),
                               ("start", "int"), ("stop", "int"), ("score", "score"), ("strand", "strand"),
                               ("phase", "phase"), ("atributes", "gtfattr")],
               lazy_capable=False, dataclass="GTFEntry", bufpath="bionumpy.io.delimited_buffers.GTFBuffer"))
SAM = _reg(Fmt("sam", ".sam", [("name", "id"), ("flag", "int"), ("chromosome", "id"), ("position", "int"),
                               ("mapq", "int"), ("cigar", "cigar"), ("next_chromosome", "str1"),
                               ("next_position", "int"), ("length", "sint"), ("sequence", "seq"),
                               ("quality", "qualstr"), ("extra", "rest")],
               header="sam", dataclass="SAMEntry", bufpath="bionumpy.io.buffers.sam.SAMBuffer"))
VCF = _reg(Fmt("vcf", ".vcf", [("chromosome", "id"), ("position", "pos1"), ("id", "str1"), ("ref_seq", "seq"),
                               ("alt_seq", "seq"), ("quality", "str1"), ("filter", "str1"), ("info", "str1")],
               header="vcf", dataclass="VCFEntry", allow_extra=True, bufpath="bionumpy.io.vcf_buffers.VCFBuffer"))
VCFINFO = _reg(Fmt("vcfinfo", ".vcf", [("chromosome", "id"), ("position", "pos1"), ("id", "str1"), ("ref_seq", "seq"),
                                       ("alt_seq", "seq"), ("quality", "str1"), ("filter", "str1"), ("info", "vcfinfo")],
                   header="vcfinfo", dataclass="VCFEntry", bufpath="bionumpy.io.vcf_buffers.VCFBuffer"))
VCFGT = _reg(Fmt("vcfgt", ".vcf", [("chromosome", "id"), ("position", "pos1"), ("id", "str1"), ("ref_seq", "seq"),
                                   ("alt_seq", "seq"), ("quality", "str1"), ("filter", "str1"), ("info", "str1"),
                                   ("genotype", "vcfgt")],
                 buffer="bionumpy.io.vcf_buffers.VCFBuffer2", header="vcfgt", dataclass="VCFEntryWithGenotypes",
                 bufpath="bionumpy.io.vcf_buffers.VCFBuffer2"))
WIG = _reg(Fmt("wig", ".wig", [("chromosome", "id"), ("start", "int"), ("stop", "int"), ("value", "float")],
               dataclass="BedGraph", bufpath="bionumpy.io.wig.WigBuffer", interior_comments=True, lazy_capable=False))
GFF3 = _reg(Fmt("gff3", ".gff3", [("chromosome", "id"), ("source", "str1"), ("feature_type", "str1"),
                                  ("start", "int"), ("stop", "int"), ("score", "score"), ("strand", "strand"),
                                  ("phase", "phase"), ("atributes", "gffattr")],
                lazy_capable=False, dataclass="GFFEntry", bufpath="bionumpy.io.delimited_buffers.GFFBuffer",
                interior_comments=True, header="gff3"))
GFA = _reg(Fmt("gfa", ".gfa", [("name", "id"), ("sequence", "seq")], dataclass="SequenceEntry",
               bufpath="bionumpy.io.delimited_buffers.GfaSequenceBuffer", prefix=["S"]))
PAIRS = _reg(Fmt("pairs", ".pairs", [("read_id", "id"), ("chrom1", "id"), ("pos1", "int"), ("chrom2", "id"), ("pos2", "int"),
                                     ("strand1", "strand"), ("strand2", "strand")],
                 dataclass="PairsEntry", bufpath="bionumpy.io.pairs.PairsBuffer", header="pairs"))
FASTA2 = _reg(Fmt("fasta2", ".fa", [("name", "hdr"), ("sequence", "seq")], layout="fasta2",
                  buffer="bionumpy.io.one_line_buffer.TwoLineFastaBuffer", dataclass="SequenceEntry"))
FASTAW = _reg(Fmt("fastaw", ".fa", [("name", "hdr"), ("sequence", "seq")], layout="fastaw",
                  lazy_capable=False, dataclass="SequenceEntry", bufpath="bionumpy.io.multiline_buffer.MultiLineFastaBuffer"))
FASTQ = _reg(Fmt("fastq", ".fq", [("name", "hdr"), ("sequence", "seq"), ("quality", "qual")], layout="fastq",
                 dataclass="SequenceEntryWithQuality", bufpath="bionumpy.io.fastq_buffer.FastQBuffer"))


# ---------------------------------------------------------------------------------------------
# value semantics

def value_of(kind, text):
    if kind in ("id", "str", "str1", "strand", "seq", "hdr", "rest", "cigar", "qualstr", "rgb", "score", "phase",
                "gtfattr", "gffattr"):
        return text
    if kind in ("int", "sint"):
        return int(text)
    if kind == "pos1":
        return int(text) - 1
    if kind == "float":
        return float(text)
    if kind == "optint":
        return MISSING if text == "." else int(text)
    if kind == "qual":
        return [ord(c) - 33 for c in text]
    if kind == "listint":
        parts = [p for p in text.split(",") if p != ""]
        return [int(p) for p in parts]
    if kind == "vcfinfo":
        return parse_info(text)
    if kind == "vcfgt":
        # FORMAT column, then one entry per sample; the genotype of a sample is its entry up to the first ':'
        cols = text.split("\t")
        return [c.split(":")[0] for c in cols[1:]]
    raise KeyError(kind)


# typed INFO keys of the generated header: key -> (Number, Type)
# (key names where one is a prefix of another: DB/DBS, A/AF)
INFO_KEYS = {"DP": ("1", "Integer"), "AF": ("A", "Float"), "DB": ("0", "Flag"), "ST": ("1", "String"), "NL": (".", "Integer"),
             "DBS": ("1", "String"), "A": ("0", "Flag"), "MQ": ("1", "Float")}


def parse_info(text):
    """INFO text -> {key: value} for the keys present ('.' = no key)"""
    out = {}
    if text == ".":
        return out
    for item in text.split(";"):
        key, _, val = item.partition("=")
        num, typ = INFO_KEYS[key]
        if typ == "Flag":
            out[key] = True
        elif num == "1" and typ == "Integer":
            out[key] = int(val)
        elif num == "1" and typ == "String":
            out[key] = val
        elif num == "1" and typ == "Float":
            out[key] = float(val)
        elif typ == "Float":
            out[key] = [float(v) for v in val.split(",")]
        else:
            out[key] = [int(v) for v in val.split(",")]
    return out


# ---------------------------------------------------------------------------------------------
# generation (tape driven; 0 is always the simplest choice)

_ID_CHARS = "ac1_.Z9b"
_CHROMS = ["chr1", "chr2", "c", "chr10", "chrX_alt", "2"]
_SEQ = "ACGT"
_SEQN = "ACGTNacgtn"


def _digits(tape, maxw, label):
    """non-negative integer text without sign; width 1..maxw; very unequal widths are common"""
    w = tape.weighted([(4, 1), (3, 2), (2, 3), (2, 5), (1, 9), (1, maxw)], label + ".w")
    w = min(w, maxw)
    shape = tape.weighted([(8, "random"), (1, "nines"), (1, "power")], label + ".shape")
    if shape == "nines":
        return "9" * w
    if shape == "power":
        return "1" + "0" * (w - 1)
    first = "123456789"[tape.draw(9, label + ".d0")] if w > 1 else "0123456789"[tape.draw(10, label + ".d0")]
    rest = "".join("0123456789"[tape.draw(10, label + ".d")] for _ in range(w - 1))
    return first + rest


def gen_int(tape, label, noncanon, maxw=18, signed=False):
    t = _digits(tape, maxw, label)
    if signed and tape.boolean(label + ".neg", 1, 3):
        t = "-" + t if t != "0" else t
    if noncanon:
        sp = tape.weighted([(6, 0), (1, 1), (1, 2)], label + ".nc")
        if sp == 1 and not t.startswith("-"):
            t = "+" + t
        elif sp == 2:
            neg = t.startswith("-")
            body = t[1:] if neg else t
            body = "0" * (1 + tape.draw(2, label + ".lz")) + body
            t = ("-" if neg else "") + body
    return t


def gen_float(tape, label, noncanon, dotless=False):
    if dotless:
        # a column in which no value has a decimal point (narrowPeak -1 columns, integer-valued bedGraph)
        kind = tape.weighted([(3, 0), (3, 4), (2 if noncanon else 0, 5)], label + ".fk")
    else:
        kind = tape.weighted([(3, 0), (3, 1), (2, 2), (2 if noncanon else 0, 3), (1, 4), (1 if noncanon else 0, 6), (1 if noncanon else 0, 7), (1 if noncanon else 0, 8)], label + ".fk")
    ip = _digits(tape, 4, label + ".ip")
    if kind == 0:
        t = ip
    elif kind == 4:
        t = "-" + ip
    elif kind == 8:
        # an explicit plus sign, plain or scientific: +1.5  +2e-1
        t = "+" + ip + (("." + _digits(tape, 2, label + ".fp")) if tape.boolean(label + ".pd") else "")
        if noncanon and tape.boolean(label + ".pe", 1, 3):
            t += "e" + str(tape.draw(5, label + ".pee") - 2)
    elif kind == 7:
        # a long decimal expansion ('%.20f' / '%.25f'): 19 and more digits behind the point
        t = ip + "." + "".join("0123456789"[tape.draw(10, label + ".ld")] for _ in range(19 + tape.draw(8, label + ".ln")))
    elif kind == 6:
        # no digit in front of / behind the decimal point: .5  -.25  3.
        shape = tape.draw(3, label + ".dotshape")
        fp = _digits(tape, 3, label + ".fp")
        t = "." + fp if shape == 0 else ("-." + fp if shape == 1 else ip + ".")
    elif kind == 5:
        e = tape.draw(5, label + ".e")
        t = ("-" if tape.boolean(label + ".neg") else "") + "123456789"[tape.draw(9, label + ".m")] + f"e{e}"
    elif kind == 1:
        t = ip + "." + _digits(tape, 3, label + ".fp")
    elif kind == 2:
        t = "-" + ip + "." + _digits(tape, 2, label + ".fp")
    else:
        e = tape.draw(7, label + ".e") - 3
        mant = "123456789"[tape.draw(9, label + ".m")]
        if tape.boolean(label + ".md"):
            mant += "." + _digits(tape, 2, label + ".mf")
        t = f"{mant}e{e}"
        if tape.boolean(label + ".upper_e", 1, 4):
            t = t.replace("e", "E")         # 2.5E3: the exponent marker may be upper case
    return t


def gen_id(tape, label, chromlike=False):
    if chromlike:
        return _CHROMS[tape.draw(len(_CHROMS), label)]
    w = tape.weighted([(3, 1), (3, 2), (2, 4), (1, 9), (1, 17)], label + ".w")
    return "".join(_ID_CHARS[tape.draw(len(_ID_CHARS), label + ".c")] for _ in range(w))


def gen_seq(tape, label, alphabet=_SEQ, minlen=1, maxlen=30):
    w = tape.weighted([(3, 1), (3, 2), (2, 5), (2, 11), (1, maxlen)], label + ".w")
    w = max(minlen, min(w, maxlen))
    return "".join(alphabet[tape.draw(len(alphabet), label + ".c")] for _ in range(w))


_QUAL = "!#I~5+@"


def gen_field(tape, kind, label, noncanon, ctx):
    if kind == "id":
        return gen_id(tape, label, chromlike=(label.endswith("chromosome")))
    if kind == "hdr":
        t = gen_id(tape, label)
        if tape.boolean(label + ".desc", 1, 4):
            t += " " + gen_id(tape, label + ".d")
        return t
    if kind == "str1":
        return gen_id(tape, label)
    if kind == "str":
        return "" if tape.boolean(label + ".empty", 1, 8) else gen_id(tape, label)
    if kind == "int":
        return gen_int(tape, label, noncanon)
    if kind == "pos1":
        t = gen_int(tape, label, noncanon, maxw=9)
        if int(t) >= 1:
            return t
        # POS 0 is legal in a VCF (a telomeric record): position -1 in the zero-based table
        return "0" if tape.boolean(label + ".pos0", 1, 2) else "1"
    if kind == "sint":
        return gen_int(tape, label, noncanon, maxw=9, signed=True)
    if kind == "float":
        return gen_float(tape, label, noncanon, dotless=bool(ctx.get("float_dotless")))
    if kind == "optint":
        # the "all rows '.'" / "no row '.'" / mixed decision is taken per file through ctx
        mode = ctx.get("optint_mode", 0)
        if mode == 1 or (mode == 2 and tape.boolean(label + ".dot", 1, 3)):
            return "."
        return gen_int(tape, label, noncanon, maxw=4)
    if kind == "strand":
        return "+-."[tape.draw(3, label)]
    if kind == "seq":
        return gen_seq(tape, label)
    if kind == "qual":
        n = ctx["qual_len"]
        return "".join(_QUAL[tape.draw(len(_QUAL), label + ".c")] for _ in range(n))
    if kind == "qualstr":
        n = ctx["qual_len"]
        if tape.boolean(label + ".star", 1, 6):
            return "*"
        return "".join(_QUAL[tape.draw(len(_QUAL), label + ".c")] for _ in range(n))
    if kind == "listint":
        n = ctx.get("list_len", 1)
        t = ",".join(gen_int(tape, label, False, maxw=4) for _ in range(n))
        tc = ctx.get("list_trailing_comma")
        if tc == "mixed":                 # both spellings within one file: decided per list
            tc = tape.boolean(label + ".tc")
        if tc:
            t += ","
        return t
    if kind == "rgb":
        return tape.choice(["0", "255,0,0", "0,0,255"], label)
    if kind == "score":
        return tape.choice([".", "0", "50", "0.5", "1e3"], label)
    if kind == "phase":
        return ".012"[tape.draw(4, label)]
    if kind == "cigar":
        n = tape.draw(3, label + ".n")
        if n == 0:
            return "*"
        return "".join(_digits(tape, 2, label + ".l") + "MIDNSHP=X"[tape.draw(9, label + ".op")] for _ in range(n))
    if kind == "gtfattr":
        n = 1 + tape.draw(3, label + ".n")
        return " ".join(f'{tape.choice(["gene_id", "transcript_id", "exon_number"], label + ".k")} '
                        f'"{gen_id(tape, label + ".v")}";' for _ in range(n))
    if kind == "gffattr":
        n = 1 + tape.draw(3, label + ".n")
        return ";".join(f'{tape.choice(["ID", "Name", "Parent"], label + ".k")}={gen_id(tape, label + ".v")}' for _ in range(n))
    if kind == "vcfinfo":
        keys = [k for k in INFO_KEYS if tape.boolean(label + ".has", 1, 2)]
        # keys in any order (they are looked up by name)
        if len(keys) > 1 and tape.boolean(label + ".rev", 1, 3):
            keys = keys[::-1]
        items = []
        for k in keys:
            num, typ = INFO_KEYS[k]
            if typ == "Flag":
                items.append(k)
            elif typ == "String":
                items.append(k + "=" + gen_id(tape, label + ".s"))
            elif typ == "Float" and num == "1":
                items.append(k + "=" + gen_float(tape, label + ".f1", True))     # also .5 / -.25 / 3. / 1e-3
            elif typ == "Float":
                n = 1 + tape.draw(2, label + ".nf")
                items.append(k + "=" + ",".join(gen_float(tape, label + ".f", False) for _ in range(n)))
            elif num == "1":
                items.append(k + "=" + gen_int(tape, label + ".i", False, maxw=6))
            else:
                n = 1 + tape.draw(3, label + ".nl")
                items.append(k + "=" + ",".join(gen_int(tape, label + ".l", False, maxw=4) for _ in range(n)))
        return ";".join(items) if items else "."
    if kind == "vcfgt":
        ns = ctx.get("n_samples", 2)
        with_extra = ctx.get("gt_extra", False)
        ents = []
        for _ in range(ns):
            g = tape.choice(["0|1", "1|1", "0/1", "./.", "0|0", "1/2", ".", "10|2", "0", "1/10"], label + ".g")
            if with_extra and tape.boolean(label + ".x", 1, 2):
                g += ":" + gen_int(tape, label + ".dp", False, maxw=3) + (":" + gen_int(tape, label + ".gq", False, maxw=2) if tape.boolean(label + ".y") else "")
            ents.append(g)
        return ("GT:DP:GQ" if with_extra else "GT") + "\t" + "\t".join(ents)
    if kind == "rest":
        n = tape.weighted([(3, 0), (2, 1), (1, 2), (1, 3)], label + ".n")
        tags = []
        for _ in range(n):
            tag = tape.choice(["NM", "AS", "XS", "MD", "RG"], label + ".t")
            if tag in ("NM", "AS", "XS"):
                tags.append(f"{tag}:i:{gen_int(tape, label + '.v', False, maxw=3)}")
            else:
                tags.append(f"{tag}:Z:{gen_id(tape, label + '.z')}")
        return "\t".join(tags)
    raise KeyError(kind)


def gen_records(tape, fmt, max_records, noncanon=True, min_records=1, style=None):
    """returns list of records; record count by the `more` pattern so that span deletion shrinks well"""
    recs = []
    ctx = {}
    style = style or {}
    if any(k == "optint" for _, k in fmt.fields):
        # 0: all integers, 1: all '.', 2: mixed ('.' next to integers)
        mixed_w = (4 if style.get("prefer_mixed_optint") else 1) if style.get("allow_mixed_optint") else 0
        ctx["optint_mode"] = tape.weighted([(6, 0), (0 if style.get("no_missing") else 1, 1), (mixed_w, 2)], "optint_mode")
    ctx["list_trailing_comma"] = (tape.weighted([(4, False), (1, True), (2, "mixed")], "list_tc")
                                  if not style.get("no_list_trailing_comma") else False) \
        if any(k == "listint" for _, k in fmt.fields) else False
    ctx["float_dotless"] = bool(style.get("float_dotless"))
    if any(k == "vcfgt" for _, k in fmt.fields):
        ctx["n_samples"] = 1 + tape.draw(3, "n_samples")
        # canonical files (what the eager writer would emit) carry the genotype alone: FORMAT is GT
        ctx["gt_extra"] = tape.boolean("gt_extra", 1, 2) and not style.get("no_extra")
    while len(recs) < max_records and (len(recs) < min_records or tape.more("rec.more")):
        i = len(recs)
        texts = {}
        rc = dict(ctx)
        for fname, kind in fmt.fields:
            label = f"r.{fname}"
            if kind == "listint":
                if fname == "block_sizes":
                    rc["list_len"] = max(1, int(texts.get("block_count", "1")))
                    rc["list_len"] = min(rc["list_len"], 4)
            if fname == "block_count":
                texts[fname] = str(1 + tape.draw(3, label))
                continue
            if kind in ("qual", "qualstr"):
                rc["qual_len"] = len(texts["sequence"])
            t = gen_field(tape, kind, label, noncanon, rc)
            if kind == "float" and style.get("float_repr"):
                t = repr(float(t))      # the spelling Python / the library's writer uses
            texts[fname] = t
        extra = []
        rec = {"texts": texts, "extra_cols": extra}
        if fmt.interior_comments and recs and tape.boolean("comment_line", 1, 3):
            rec["comment"] = "#" + gen_id(tape, "comment")
            if tape.boolean("comment_line2", 1, 2):
                rec["comment2"] = "##" + gen_id(tape, "comment2")      # two directly adjacent comment lines
        recs.append(rec)
    # file-level decisions that must be uniform over the records
    if fmt.allow_extra and not style.get("no_extra") and tape.boolean("extra_cols", 1, 4):
        n_extra = 1 + tape.draw(2, "n_extra")
        if fmt.name == "vcf":
            for r in recs:
                r["extra_cols"] = ["GT"] + [tape.choice(["0|1", "1|1", "0/1", "./.", "0|0"], "gt") for _ in range(n_extra)]
        else:
            for r in recs:
                r["extra_cols"] = [gen_id(tape, "xcol") for _ in range(n_extra)]
    if fmt.layout == "fastq":
        for r in recs:
            r["plus"] = "+" + (r["texts"]["name"] if (noncanon and tape.boolean("plusname", 1, 5)) else "")
    return recs


def gen_style(tape, fmt, allow_crlf=True, allow_nofinal=True, allow_header=True):
    st = {
        "crlf": bool(allow_crlf and tape.boolean("crlf", 1, 5)),
        "final_newline": not (allow_nofinal and tape.boolean("nofinal", 1, 3)),
        "header": bool(allow_header and fmt.header and tape.boolean("header", 2, 3)),
        "wrap": 0,
    }
    if any(k == "float" for _, k in fmt.fields) and tape.boolean("float_dotless", 1, 5):
        st["float_dotless"] = True
    if fmt.layout == "fastaw":
        st["wrap"] = tape.weighted([(2, 60), (2, 1), (2, 2), (2, 3), (2, 5), (1, 7), (1, 12)], "wrap")
    if fmt.header == "vcf":
        st["header"] = True if tape.boolean("vcfheader", 5, 6) else st["header"]
    if fmt.header in ("vcfinfo", "vcfgt"):
        st["header"] = True
    return st


def header_text(fmt, style, records):
    """returns list of header lines (without terminator)"""
    if not style.get("header") or not fmt.header:
        return []
    if fmt.header == "vcf":
        lines = ["##fileformat=VCFv4.2", "##source=bnpsim"]
        cols = "#CHROM\tPOS\tID\tREF\tALT\tQUAL\tFILTER\tINFO"
        if records and records[0]["extra_cols"]:
            cols += "\tFORMAT" + "".join(f"\tS{i}" for i in range(len(records[0]["extra_cols"]) - 1))
        return lines + [cols]
    if fmt.header == "vcfinfo":
        lines = ["##fileformat=VCFv4.2"]
        for k, (num, typ) in INFO_KEYS.items():
            lines.append(f'##INFO=<ID={k},Number={num},Type={typ},Description="{k.lower()}">')
        return lines + ["#CHROM\tPOS\tID\tREF\tALT\tQUAL\tFILTER\tINFO"]
    if fmt.header == "vcfgt":
        ns = len(records[0]["texts"]["genotype"].split("\t")) - 1 if records else 1
        return ["##fileformat=VCFv4.2", "#CHROM\tPOS\tID\tREF\tALT\tQUAL\tFILTER\tINFO\tFORMAT" + "".join(f"\tS{i}" for i in range(ns))]
    if fmt.header == "gff3":
        return ["##gff-version 3"]
    if fmt.header == "pairs":
        return ["## pairs format v1.0", "#columns: readID chr1 pos1 chr2 pos2 strand1 strand2"]
    if fmt.header == "sam":
        return ["@HD\tVN:1.6\tSO:unsorted", "@SQ\tSN:chr1\tLN:1000"]
    if fmt.header == "hash":
        return ["#comment line"]
    return []


def record_lines(fmt, rec, style):
    """list of (line_text, [(field, start_in_line, text)]) for one record"""
    t = rec["texts"]
    if fmt.layout == "tsv":
        cols = list(fmt.prefix)
        spans = []
        pos = sum(len(c) + 1 for c in cols)
        for fname, kind in fmt.fields:
            if kind == "rest":
                if t[fname] == "":
                    continue
            txt = t[fname]
            spans.append((fname, pos, txt))
            cols.append(txt)
            pos += len(txt) + 1
        for x in rec["extra_cols"]:
            cols.append(x)
        return [("\t".join(cols), spans)]
    if fmt.layout == "fasta2":
        return [(">" + t["name"], [("name", 1, t["name"])]), (t["sequence"], [("sequence", 0, t["sequence"])])]
    if fmt.layout == "fastq":
        return [("@" + t["name"], [("name", 1, t["name"])]), (t["sequence"], [("sequence", 0, t["sequence"])]),
                (rec.get("plus", "+"), []), (t["quality"], [("quality", 0, t["quality"])])]
    if fmt.layout == "fastaw":
        w = style["wrap"] or 60
        s = t["sequence"]
        lines = [(">" + t["name"], [("name", 1, t["name"])])]
        for i in range(0, len(s), w):
            lines.append((s[i:i + w], []))
        return lines
    raise KeyError(fmt.layout)


def serialize(fmt, records, style):
    """-> (data bytes, layout dict)

    layout = {'header_len': n, 'records': [{'start','end','first_line','n_lines','fields':{f:(abs_start,text)}}], 'n_lines'}
    """
    nl = "\r\n" if style.get("crlf") else "\n"
    out = []
    pos = 0
    for h in header_text(fmt, style, records):
        out.append(h + nl)
        pos += len(h) + len(nl)
    header_len = pos
    lay = []
    line_no = 0
    for rec in records:
        for key in ("comment", "comment2"):
            if rec.get(key):
                out.append(rec[key] + nl)
                pos += len(rec[key]) + len(nl)
                line_no += 1
        start = pos
        first_line = line_no
        fields = {}
        for line, spans in record_lines(fmt, rec, style):
            for fname, off, txt in spans:
                fields[fname] = (pos + off, txt)
            out.append(line + nl)
            pos += len(line) + len(nl)
            line_no += 1
        lay.append({"start": start, "end": pos, "first_line": first_line, "n_lines": line_no - first_line,
                    "fields": fields})
    data = "".join(out)
    if not style.get("final_newline", True) and data.endswith(nl) and records:
        data = data[: -len(nl)]
        lay[-1]["end"] -= len(nl)
        lay[-1]["unterminated"] = True
    return data.encode("latin1"), {"header_len": header_len, "records": lay, "n_lines": line_no, "nl": nl}


def expected_values(fmt, rec):
    return {fname: value_of(kind, rec["texts"][fname]) for fname, kind in fmt.fields}


# ---------------------------------------------------------------------------------------------
# comparison of a parsed table (rendered plain by core.plain) with the model

def compare_field(kind, expected, got):
    """-> None if ok, else message. `got` is the plain rendering of one cell."""
    from ..core import same
    if expected is MISSING:
        return None  # the numeric stand-in for '.' is not determined by the format
    if kind in ("int", "sint", "pos1", "optint"):
        if isinstance(got, bool) or not isinstance(got, int):
            if isinstance(got, float) and got == expected:
                return None
            return f"expected int {expected}, got {got!r}"
        return None if got == expected else f"expected {expected}, got {got}"
    if kind == "float":
        if not isinstance(got, (int, float)) or isinstance(got, bool):
            return f"expected float {expected}, got {got!r}"
        return None if same(float(expected), float(got), rel=1e-6, abs_=1e-12) else f"expected {expected}, got {got}"
    if kind == "vcfinfo":
        if not isinstance(got, dict):
            return f"expected INFO table, got {got!r}"
        for key, (num, typ) in INFO_KEYS.items():
            g = got.get(key, "<absent>")
            if g == "<absent>" and key not in expected:
                continue    # a key this file's header does not declare (files written by an older generator)
            if typ == "Flag":
                if bool(g) != (key in expected) or g == "<absent>":
                    return f"flag {key}: expected {key in expected}, got {g!r}"
            elif key in expected:
                if not same(expected[key], g, rel=1e-6, abs_=1e-12):
                    return f"key {key}: expected {expected[key]!r}, got {g!r}"
        return None
    if kind == "vcfgt":
        return None if (isinstance(got, list) and got == expected) else f"expected {expected}, got {got!r}"
    if kind in ("qual", "listint"):
        if not isinstance(got, list):
            return f"expected list {expected}, got {got!r}"
        return None if same(expected, got) else f"expected {expected}, got {got}"
    # text kinds
    if not isinstance(got, str):
        return f"expected text {expected!r}, got {got!r}"
    return None if got == expected else f"expected {expected!r}, got {got!r}"


def table_rows(plain_table, fmt):
    """plain_table: {field: [cells]} -> list of {field: cell}; total (missing fields become '<absent>')"""
    names = fmt.field_names()
    n = None
    for f in names:
        col = plain_table.get(f) if isinstance(plain_table, dict) else None
        if isinstance(col, list):
            n = len(col) if n is None else max(n, len(col))
    n = n or 0
    rows = []
    for i in range(n):
        row = {}
        for f in names:
            col = plain_table.get(f)
            if isinstance(col, dict):      # a nested table (typed VCF INFO): one dict per row
                row[f] = {k: (v[i] if isinstance(v, list) and i < len(v) else "<absent>") for k, v in col.items()}
            else:
                row[f] = col[i] if isinstance(col, list) and i < len(col) else "<absent>"
        rows.append(row)
    return rows


# ---------------------------------------------------------------------------------------------
# strict validator (used by C15 to judge corrupted / torn files)

import re as _re

_RX = {
    "id": _re.compile(r"^[!-~]+$"),
    "str1": _re.compile(r"^[!-~]+$"),
    "str": _re.compile(r"^[!-~]*$"),
    "hdr": _re.compile(r"^[ -~]+$"),
    "int": _re.compile(r"^\+?[0-9]+$"),
    "pos1": _re.compile(r"^\+?[0-9]+$"),
    "sint": _re.compile(r"^[+-]?[0-9]+$"),
    "float": _re.compile(r"^[+-]?([0-9]+(\.[0-9]*)?|\.[0-9]+)([eE][+-]?[0-9]+)?$"),
    "optint": _re.compile(r"^(\.|\+?[0-9]+)$"),
    "strand": _re.compile(r"^[+\-.]$"),
    "seq": _re.compile(r"^[A-Za-z*=.]+$"),
    "qual": _re.compile(r"^[!-~]+$"),
    "qualstr": _re.compile(r"^[!-~]+$"),
    "listint": _re.compile(r"^([0-9]+,)*[0-9]+,?$"),
    "rgb": _re.compile(r"^[0-9,]+$"),
    "score": _re.compile(r"^[!-~]+$"),
    "phase": _re.compile(r"^[.012]$"),
    "cigar": _re.compile(r"^(\*|([0-9]+[MIDNSHP=X])+)$"),
    "gtfattr": _re.compile(r"^[ -~]*$"),
    "gffattr": _re.compile(r"^[!-~]*$"),
    "vcfinfo": _re.compile(r"^(\.|[A-Z]+(=[^;\t ]+)?(;[A-Z]+(=[^;\t ]+)?)*)$"),
}


def split_lines(body, crlf):
    """-> (lines without terminators, terminated: bool for the last line). body: bytes after the header"""
    text = body.decode("latin1")
    if text == "":
        return [], True
    terminated = text.endswith("\n")
    lines = text.split("\n")
    if terminated:
        lines = lines[:-1]
    out = []
    for ln in lines:
        if crlf and ln.endswith("\r"):
            ln = ln[:-1]
        out.append(ln)
    return out, terminated


def validate(fmt, body, style, lenient_extra=False):
    """strict format check of the data part of a file.
    -> ("ok", records)  where records = [{'texts':..., 'extra_cols':[...]}]  (as the model would generate them)
    -> ("bad", line_index, reason)  zero-based line (from the start of the data) of the first offending line;
       reason in columns | field:<name> | marker | plus | structure | length
    lenient_extra: consistent trailing columns are accepted for every delimited format
    """
    lines, _ = split_lines(body, style.get("crlf"))
    if fmt.layout == "tsv":
        recs = []
        ncols_first = None
        nf = len(fmt.fields)
        last_kind = fmt.fields[-1][1]
        has_rest = last_kind in ("rest", "vcfgt")     # the last field of the entry type spans all remaining columns
        nfixed = nf - 1 if has_rest else nf
        pending_comment = None
        for i, ln in enumerate(lines):
            if fmt.interior_comments and ln.startswith("#"):
                pending_comment = ln
                continue
            if "\r" in ln or ln == "":
                return ("bad", i, "structure")
            cols = ln.split("\t")
            if fmt.prefix:
                if cols[:len(fmt.prefix)] != fmt.prefix:
                    return ("bad", i, "field:<prefix>")
                cols = cols[len(fmt.prefix):]
            if has_rest:
                if len(cols) < nfixed:
                    return ("bad", i, "columns")
            else:
                if len(cols) < nfixed or (len(cols) > nfixed and not (fmt.allow_extra or lenient_extra)):
                    return ("bad", i, "columns")
                if ncols_first is None:
                    ncols_first = len(cols)
                elif len(cols) != ncols_first:
                    return ("bad", i, "columns")
            texts = {}
            for (fname, kind), c in zip(fmt.fields[:nfixed], cols):
                if not _RX[kind].match(c):
                    return ("bad", i, "field:" + fname)
                if kind == "pos1" and int(c) < 0:
                    return ("bad", i, "field:" + fname)
                if kind == "vcfinfo" and c != ".":
                    # typed values: Integer / Float items must be numbers (keys the header does not declare are not judged)
                    for item in c.split(";"):
                        key, _, val = item.partition("=")
                        if key in INFO_KEYS and INFO_KEYS[key][1] in ("Integer", "Float"):
                            rx = _RX["sint"] if INFO_KEYS[key][1] == "Integer" else _RX["float"]
                            if not val or any(not rx.match(v) for v in val.split(",")):
                                return ("bad", i, "field:" + fname)
                texts[fname] = c
            extra = []
            if has_rest:
                rest = cols[nfixed:]
                if last_kind == "rest" and any(not _re.match(r"^[A-Za-z][A-Za-z0-9]:[AifZHB]:[ -~]*$", t) for t in rest):
                    return ("bad", i, "field:" + fmt.fields[-1][0])
                if last_kind == "vcfgt":
                    if len(rest) < 2 or any(c == "" for c in rest):
                        return ("bad", i, "columns")
                    if ncols_first is None:
                        ncols_first = len(cols)
                    elif len(cols) != ncols_first:
                        return ("bad", i, "columns")
                texts[fmt.fields[-1][0]] = "\t".join(rest)
            else:
                extra = cols[nfixed:]
                if any(c == "" for c in extra):
                    return ("bad", i, "field:<extra>")
            rec = {"texts": texts, "extra_cols": extra}
            if pending_comment is not None and recs:
                rec["comment"] = pending_comment
            pending_comment = None
            recs.append(rec)
        return ("ok", recs)
    if fmt.layout == "fasta2":
        recs = []
        for i, ln in enumerate(lines):
            if i % 2 == 0:
                if not ln.startswith(">") or len(ln) < 2:
                    return ("bad", i, "marker")
            else:
                if ln.startswith(">") or not _RX["seq"].match(ln):
                    return ("bad", i, "structure")
                recs.append({"texts": {"name": lines[i - 1][1:], "sequence": ln}, "extra_cols": []})
        if len(lines) % 2:
            return ("bad", len(lines) - 1, "structure")
        return ("ok", recs)
    if fmt.layout == "fastq":
        recs = []
        for i, ln in enumerate(lines):
            r = i % 4
            if r == 0 and (not ln.startswith("@") or len(ln) < 2):
                return ("bad", i, "marker")
            if r == 1 and not _RX["seq"].match(ln):
                return ("bad", i, "structure")
            if r == 2 and not ln.startswith("+"):
                return ("bad", i, "plus")
            if r == 3:
                if len(ln) != len(lines[i - 2]) or not _RX["qual"].match(ln):
                    return ("bad", i, "length")
                recs.append({"texts": {"name": lines[i - 3][1:], "sequence": lines[i - 2], "quality": ln},
                             "extra_cols": [], "plus": lines[i - 1]})
        if len(lines) % 4:
            return ("bad", len(lines) - 1, "structure")
        return ("ok", recs)
    if fmt.layout == "fastaw":
        recs = []
        cur = None
        for i, ln in enumerate(lines):
            if ln.startswith(">"):
                if len(ln) < 2:
                    return ("bad", i, "marker")
                if cur is not None:
                    if cur["texts"]["sequence"] == "":
                        return ("bad", i, "structure")
                    recs.append(cur)
                cur = {"texts": {"name": ln[1:], "sequence": ""}, "extra_cols": []}
            else:
                if cur is None:
                    return ("bad", i, "marker")
                if not _RX["seq"].match(ln):
                    return ("bad", i, "structure")
                cur["texts"]["sequence"] += ln
        if cur is not None:
            if cur["texts"]["sequence"] == "":
                return ("bad", len(lines) - 1, "structure")
            recs.append(cur)
        return ("ok", recs)
    raise KeyError(fmt.layout)


def column_counts(body, style):
    lines, _ = split_lines(body, style.get("crlf"))
    return [len(ln.split("\t")) for ln in lines]
