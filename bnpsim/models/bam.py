"""Reference model of BAM, written from the SAM/BAM specification (SAMv1 section 4).

Shares no code with bionumpy: struct, zlib and plain Python only.

  record (dict)   refid, pos, mapq, flag, name, cigar [(op_char, len)], seq (str over SEQ_CODE), qual [int],
                  tags (bytes), next_refid, next_pos, tlen, pad (the undefined low nibble after an odd l_seq)
  header (dict)   text (bytes), refs [(name, l_ref)]

  gen_file(tape, ...)            -> header, records                    (0 on the tape is the simplest choice)
  encode_header / encode_record / encode_stream                        uncompressed BAM byte stream
  bgzf_compress(stream, cuts, ...)                                     BGZF file with chosen block boundaries + EOF block
  decode_file(bytes)             -> dict(header, records, blocks, ...) independent decoder (BGZF or plain gzip members)
  interval(header, rec)          -> (refname, start, end, strand)
"""
import struct
import zlib

SEQ_CODE = "=ACMGRSVTWYHKDBN"
CIGAR_OPS = "MIDNSHP=X"
REF_CONSUMING = "MDN=X"
QUERY_CONSUMING = "MIS=X"
BAM_MAGIC = b"BAM\x01"
BGZF_EOF = bytes.fromhex("1f8b08040000000000ff0600424302001b0003000000000000000000")

NAME_ALPHABET = "abcdefghijklmnopqrstuvwxyzABCDEFGHIJKLMNOPQRSTUVWXYZ0123456789._:/-#!~|+=?<>[]{}()*&^%$;,'\"`\\"
REF_ALPHABET = "chr0123456789abdefgXYM_.-|:+"


class ModelError(Exception):
    """the bytes are not a well-formed BGZF/BAM (raised by the independent decoder)"""


# ---------------------------------------------------------------------------------------------
# encoding

def reg2bin(beg, end):
    """SAMv1 5.3: bin of the 0-based half-open interval [beg, end)"""
    end -= 1
    if beg >> 14 == end >> 14:
        return ((1 << 15) - 1) // 7 + (beg >> 14)
    if beg >> 17 == end >> 17:
        return ((1 << 12) - 1) // 7 + (beg >> 17)
    if beg >> 20 == end >> 20:
        return ((1 << 9) - 1) // 7 + (beg >> 20)
    if beg >> 23 == end >> 23:
        return ((1 << 6) - 1) // 7 + (beg >> 23)
    if beg >> 26 == end >> 26:
        return ((1 << 3) - 1) // 7 + (beg >> 26)
    return 0


def ref_length(cigar):
    return sum(n for op, n in cigar if op in REF_CONSUMING)


def query_length(cigar):
    return sum(n for op, n in cigar if op in QUERY_CONSUMING)


def record_bin(rec):
    pos = rec["pos"]
    if pos < 0:
        return 4680  # reg2bin(-1, 0)
    rl = ref_length(rec["cigar"])
    return reg2bin(pos, pos + (rl if rl > 0 else 1))


def pack_seq(seq, pad=0):
    out = bytearray()
    for i in range(0, len(seq), 2):
        hi = SEQ_CODE.index(seq[i])
        lo = SEQ_CODE.index(seq[i + 1]) if i + 1 < len(seq) else (pad & 15)
        out.append((hi << 4) | lo)
    return bytes(out)


def encode_record(rec):
    """one alignment record including its block_size field"""
    name = rec["name"].encode("ascii") + b"\x00"
    assert 2 <= len(name) <= 255
    cigar = b"".join(struct.pack("<I", (n << 4) | CIGAR_OPS.index(op)) for op, n in rec["cigar"])
    seq = rec["seq"]
    qual = bytes(rec["qual"])
    assert len(qual) == len(seq)
    body = struct.pack("<iiBBHHHIiii", rec["refid"], rec["pos"], len(name), rec["mapq"], record_bin(rec),
                       len(rec["cigar"]), rec["flag"], len(seq), rec["next_refid"], rec["next_pos"], rec["tlen"])
    body += name + cigar + pack_seq(seq, rec.get("pad", 0)) + qual + rec["tags"]
    return struct.pack("<i", len(body)) + body


def encode_header(header):
    out = [BAM_MAGIC, struct.pack("<i", len(header["text"])), header["text"], struct.pack("<i", len(header["refs"]))]
    for name, l_ref in header["refs"]:
        nm = name.encode("ascii") + b"\x00"
        out.append(struct.pack("<i", len(nm)) + nm + struct.pack("<i", l_ref))
    return b"".join(out)


def encode_stream(header, records):
    """-> (uncompressed bytes, header length, [(start, end) of every record in the stream])"""
    h = encode_header(header)
    parts = [h]
    spans = []
    off = len(h)
    for r in records:
        b = encode_record(r)
        spans.append((off, off + len(b)))
        off += len(b)
        parts.append(b)
    return b"".join(parts), len(h), spans


def bgzf_block(data, level=6):
    """one BGZF block: a gzip member with the BC extra subfield holding BSIZE = total block size - 1"""
    assert len(data) < 65000
    c = zlib.compressobj(level, zlib.DEFLATED, -15)
    cdata = c.compress(data) + c.flush()
    bsize = 12 + 6 + len(cdata) + 8
    assert bsize <= 65536
    head = struct.pack("<BBBBIBBH", 0x1f, 0x8b, 8, 4, 0, 0, 0xff, 6) + b"BC" + struct.pack("<HH", 2, bsize - 1)
    return head + cdata + struct.pack("<II", zlib.crc32(data) & 0xffffffff, len(data) & 0xffffffff)


def bgzf_compress(stream, cuts=(), level=6, empty_blocks_at=()):
    """cut the uncompressed stream into blocks at the given offsets, append the EOF block.
    empty_blocks_at: block indices before which an empty (0-byte payload) block is inserted.
    -> (file bytes, [uncompressed block lengths])"""
    cuts = sorted(set(c for c in cuts if 0 < c < len(stream)))
    pieces = []
    prev = 0
    for c in cuts + [len(stream)]:
        piece = stream[prev:c]
        while len(piece) > 64000:           # BSIZE is a uint16: a block (header, deflated payload, trailer) holds at most 64 KiB
            pieces.append(piece[:64000])
            piece = piece[64000:]
        pieces.append(piece)
        prev = c
    out = []
    lens = []
    for i, p in enumerate(pieces):
        if i in empty_blocks_at:
            out.append(bgzf_block(b"", level))
            lens.append(0)
        out.append(bgzf_block(p, level))
        lens.append(len(p))
    out.append(BGZF_EOF)
    return b"".join(out), lens


# ---------------------------------------------------------------------------------------------
# decoding (independent of the encoder above as far as practical: explicit offsets)

def gunzip_members(data):
    """split a concatenation of gzip members; -> [dict(payload, bgzf: bool, size, start)]"""
    out = []
    p = 0
    n = len(data)
    while p < n:
        start = p
        if n - p < 18:
            raise ModelError(f"trailing garbage / truncated gzip member at {p}")
        if data[p] != 0x1f or data[p + 1] != 0x8b:
            raise ModelError(f"bad gzip magic at {p}")
        if data[p + 2] != 8:
            raise ModelError("compression method is not deflate")
        flg = data[p + 3]
        p += 10
        bsize = None
        if flg & 4:
            xlen = data[p] | (data[p + 1] << 8)
            extra = data[p + 2:p + 2 + xlen]
            if len(extra) != xlen:
                raise ModelError("truncated extra field")
            p += 2 + xlen
            q = 0
            while q + 4 <= len(extra):
                si1, si2, slen = extra[q], extra[q + 1], extra[q + 2] | (extra[q + 3] << 8)
                if si1 == 66 and si2 == 67 and slen == 2:
                    bsize = extra[q + 4] | (extra[q + 5] << 8)
                q += 4 + slen
        if flg & 8:
            e = data.index(b"\x00", p)
            p = e + 1
        if flg & 16:
            e = data.index(b"\x00", p)
            p = e + 1
        if flg & 2:
            p += 2
        d = zlib.decompressobj(-15)
        try:
            payload = d.decompress(data[p:])
            payload += d.flush()
        except zlib.error as e:
            raise ModelError(f"deflate error: {e}")
        if not d.eof:
            raise ModelError("truncated deflate stream")
        used = len(data) - p - len(d.unused_data)
        p += used
        if n - p < 8:
            raise ModelError("truncated gzip trailer")
        crc, isize = struct.unpack_from("<II", data, p)
        p += 8
        if crc != (zlib.crc32(payload) & 0xffffffff):
            raise ModelError("crc mismatch")
        if isize != (len(payload) & 0xffffffff):
            raise ModelError("isize mismatch")
        size = p - start
        out.append({"payload": payload, "bgzf": bsize is not None and bsize + 1 == size, "size": size,
                    "start": start})
    return out


def parse_tags(b):
    """validate the optional-field area; -> [(tag, type, value)]"""
    out = []
    p = 0
    fixed = {"A": "<c", "c": "<b", "C": "<B", "s": "<h", "S": "<H", "i": "<i", "I": "<I", "f": "<f"}
    while p < len(b):
        if len(b) - p < 3:
            raise ModelError("truncated tag")
        tag = b[p:p + 2].decode("latin1")
        t = chr(b[p + 2])
        p += 3
        if t in fixed:
            sz = struct.calcsize(fixed[t])
            if p + sz > len(b):
                raise ModelError("truncated tag value")
            v = struct.unpack_from(fixed[t], b, p)[0]
            p += sz
        elif t in "ZH":
            e = b.find(b"\x00", p)
            if e < 0:
                raise ModelError("unterminated string tag")
            v = b[p:e].decode("latin1")
            p = e + 1
        elif t == "B":
            if p + 5 > len(b):
                raise ModelError("truncated array tag")
            st = chr(b[p])
            cnt = struct.unpack_from("<I", b, p + 1)[0]
            p += 5
            if st not in "cCsSiIf":
                raise ModelError("bad array subtype")
            sz = struct.calcsize(fixed[st])
            if p + sz * cnt > len(b):
                raise ModelError("truncated array")
            v = [struct.unpack_from(fixed[st], b, p + i * sz)[0] for i in range(cnt)]
            p += sz * cnt
        else:
            raise ModelError(f"bad tag type {t!r}")
        out.append((tag, t, v))
    return out


def decode_stream(u):
    """uncompressed BAM bytes -> (header dict, [record dict], header_len, spans)"""
    if u[:4] != BAM_MAGIC:
        raise ModelError("bad BAM magic")
    if len(u) < 12:
        raise ModelError("truncated header")
    l_text = struct.unpack_from("<i", u, 4)[0]
    p = 8
    text = u[p:p + l_text]
    if l_text < 0 or len(text) != l_text:
        raise ModelError("truncated header text")
    p += l_text
    if p + 4 > len(u):
        raise ModelError("truncated header (n_ref)")
    n_ref = struct.unpack_from("<i", u, p)[0]
    p += 4
    refs = []
    for _ in range(n_ref):
        if p + 4 > len(u):
            raise ModelError("truncated reference")
        l_name = struct.unpack_from("<i", u, p)[0]
        p += 4
        nm = u[p:p + l_name]
        if l_name < 1 or len(nm) != l_name or nm[-1:] != b"\x00":
            raise ModelError("bad reference name")
        p += l_name
        if p + 4 > len(u):
            raise ModelError("truncated reference length")
        l_ref = struct.unpack_from("<i", u, p)[0]
        p += 4
        refs.append((nm[:-1].decode("latin1"), l_ref))
    header_len = p
    records = []
    spans = []
    while p < len(u):
        if p + 4 > len(u):
            raise ModelError("truncated block_size")
        bs = struct.unpack_from("<i", u, p)[0]
        if bs < 32 or p + 4 + bs > len(u):
            raise ModelError(f"bad block_size {bs} at {p}")
        r = u[p + 4:p + 4 + bs]
        spans.append((p, p + 4 + bs))
        p += 4 + bs
        refid, pos, l_read_name, mapq, bin_, n_cig, flag, l_seq, nrefid, npos, tlen = struct.unpack_from("<iiBBHHHIiii", r, 0)
        q = 32
        nm = r[q:q + l_read_name]
        if l_read_name < 1 or len(nm) != l_read_name or nm[-1:] != b"\x00":
            raise ModelError("bad read name")
        q += l_read_name
        if q + 4 * n_cig > bs:
            raise ModelError("cigar beyond record")
        cigar = []
        for i in range(n_cig):
            v = struct.unpack_from("<I", r, q + 4 * i)[0]
            if (v & 15) >= len(CIGAR_OPS):
                raise ModelError("bad cigar op")
            cigar.append((CIGAR_OPS[v & 15], v >> 4))
        q += 4 * n_cig
        nb = (l_seq + 1) // 2
        if q + nb + l_seq > bs:
            raise ModelError("seq/qual beyond record")
        seq = []
        for i in range(l_seq):
            byte = r[q + i // 2]
            seq.append(SEQ_CODE[(byte >> 4) if i % 2 == 0 else (byte & 15)])
        pad = (r[q + nb - 1] & 15) if l_seq % 2 == 1 else 0
        q += nb
        qual = list(r[q:q + l_seq])
        q += l_seq
        tags = bytes(r[q:])
        parse_tags(tags)
        if refid < -1 or refid >= n_ref:
            raise ModelError("refID out of range")
        records.append({"refid": refid, "refname": refs[refid][0] if refid >= 0 else None, "pos": pos, "mapq": mapq,
                        "bin": bin_, "flag": flag, "name": nm[:-1].decode("latin1"), "cigar": cigar,
                        "seq": "".join(seq), "qual": qual, "tags": tags, "next_refid": nrefid, "next_pos": npos,
                        "tlen": tlen, "pad": pad})
    return {"text": bytes(text), "refs": refs}, records, header_len, spans


def decode_file(data):
    """BGZF (or any concatenation of gzip members) -> dict"""
    members = gunzip_members(data)
    u = b"".join(m["payload"] for m in members)
    header, records, header_len, spans = decode_stream(u)
    n_eof_blocks = sum(1 for m in members if data[m["start"]:m["start"] + m["size"]] == BGZF_EOF)
    return {"header": header, "records": records, "header_len": header_len, "spans": spans, "uncompressed": u,
            "header_bytes": u[:header_len],
            "block_lens": [len(m["payload"]) for m in members],
            "all_bgzf": all(m["bgzf"] for m in members),
            "n_eof_blocks": n_eof_blocks,
            "ends_with_eof": data[-len(BGZF_EOF):] == BGZF_EOF}


# ---------------------------------------------------------------------------------------------
# derived values

def refname(header, rec):
    return header["refs"][rec["refid"]][0] if rec["refid"] >= 0 else None


def interval(header, rec):
    """(reference name | None, start, end, strand) of an alignment"""
    return (refname(header, rec), rec["pos"], rec["pos"] + ref_length(rec["cigar"]),
            "-" if rec["flag"] & 0x10 else "+")


def is_mapped(rec):
    """a record the interval clause is judged on: placed on a reference, not flagged unmapped"""
    return rec["refid"] >= 0 and rec["pos"] >= 0 and not (rec["flag"] & 0x4)


def expected_row(header, rec):
    """the values the specification assigns to the record, in the shape the check compares"""
    return {"chromosome": refname(header, rec), "name": rec["name"], "flag": rec["flag"], "position": rec["pos"],
            "mapq": rec["mapq"], "cigar_op": [op for op, _ in rec["cigar"]], "cigar_length": [n for _, n in rec["cigar"]],
            "sequence": rec["seq"], "quality": list(rec["qual"])}


def summary(rec):
    """compact JSON-able rendering for scenarios"""
    cigar = "".join(f"{n}{op}" for op, n in rec["cigar"]) or "*"
    seq, qual = rec["seq"], list(rec["qual"])
    if len(rec["cigar"]) > 64:      # thousands of operations: abbreviated in reports and replay files
        cigar = cigar[:24] + f"...({len(rec['cigar'])} operations)"
        seq = seq[:8] + f"...({len(rec['seq'])} bases)"
        qual = qual[:4] + [f"...({len(rec['qual'])} values)"]
    return {"refid": rec["refid"], "pos": rec["pos"], "mapq": rec["mapq"], "flag": rec["flag"], "name": rec["name"],
            "cigar": cigar, "seq": seq, "pad": rec.get("pad", 0),
            "qual": qual, "tags": rec["tags"].hex(), "next": [rec["next_refid"], rec["next_pos"], rec["tlen"]]}


# ---------------------------------------------------------------------------------------------
# generation (tape driven; 0 is always the simplest choice)

def _gen_name(tape, tag):
    kind = tape.weighted([(10, "short"), (2, "medium"), (1, "long"), (1, "max")], tag + "name.kind")
    if kind == "short":
        n = 1 + tape.draw(12, tag + "name.len")
        return "".join(NAME_ALPHABET[tape.draw(len(NAME_ALPHABET), tag + "name.ch")] for _ in range(n))
    if kind == "medium":
        n = 13 + tape.draw(52, tag + "name.len")
    elif kind == "long":
        n = 65 + tape.draw(190, tag + "name.len")
    else:
        n = 254 - tape.draw(3, tag + "name.len")
    motif_len = 1 + tape.draw(5, tag + "name.motif_len")
    motif = "".join(NAME_ALPHABET[tape.draw(len(NAME_ALPHABET), tag + "name.ch")] for _ in range(motif_len))
    return (motif * (n // motif_len + 1))[:n]


def _gen_cigar(tape, tag, max_ops, max_query):
    """-> list of (op, len) obeying: H only first/last, S only at the ends inside H, query length <= max_query"""
    shape = tape.weighted([(3, "oneM"), (8, "random"), (2, "none"), (1, "all_nine")], tag + "cigar.shape")
    if shape == "none" or max_ops == 0:
        return []
    if shape == "oneM":
        return [("M", 1 + tape.draw(max(max_query, 1), tag + "cigar.len"))] if max_query >= 1 else [("D", 1)]
    rem = [max_query]

    huge_used = [False]

    def qlen(label):
        if rem[0] <= 0:
            return 0
        n = 1 + tape.draw(min(rem[0], 24), label)
        rem[0] -= n
        return n

    def rlen(label, op):
        if op == "N":
            k = tape.weighted([(6, "small"), (2, "big"), (1 if not huge_used[0] else 0, "huge")], label + ".mag")
            if k == "huge":
                # the operation length is a 28-bit field: values around 2**27 and up to 2**28 - 1 (one per record, so that
                # position + reference length stays inside the 31-bit coordinate range)
                huge_used[0] = True
                return [2 ** 27 - 1, 2 ** 27, 2 ** 27 + 5, 140000000, 2 ** 28 - 1][tape.draw(5, label + ".huge")]
            return 1 + (tape.draw(30, label) if k == "small" else tape.draw(200000, label))
        return 1 + tape.draw(30, label)

    if shape == "all_nine" and max_ops >= 11 and max_query >= 6:
        core = list("MIDNP=X")
        ops = ["H", "S"] + core + ["S", "H"]
        # reserve one query base for each of the six query consuming ops
        rem[0] -= 6
        out = []
        for op in ops:
            if op in QUERY_CONSUMING:
                extra = tape.draw(min(max(rem[0], 0), 8) + 1, tag + "cigar.len")
                rem[0] -= extra
                out.append((op, 1 + extra))
            elif op == "H" or op == "P":
                out.append((op, 1 + tape.draw(20, tag + "cigar.len")))
            else:
                out.append((op, rlen(tag + "cigar.len", op)))
        return out
    out = []
    lead_h = tape.boolean(tag + "cigar.leadH", 1, 6)
    lead_s = tape.boolean(tag + "cigar.leadS", 1, 4)
    trail_s = tape.boolean(tag + "cigar.trailS", 1, 4)
    trail_h = tape.boolean(tag + "cigar.trailH", 1, 6)
    if lead_h:
        out.append(("H", 1 + tape.draw(20, tag + "cigar.len")))
    if lead_s:
        n = qlen(tag + "cigar.len")
        if n:
            out.append(("S", n))
    reserve_tail = (1 if trail_s else 0)
    n_core = 0
    budget_ops = max_ops - len(out) - (1 if trail_s else 0) - (1 if trail_h else 0)
    while n_core < budget_ops and tape.more(tag + "cigar.more", 2, 3):
        op = "MIDNP=X"[tape.draw(7, tag + "cigar.op")]
        if op in QUERY_CONSUMING:
            if rem[0] - reserve_tail <= 0:
                op = "D"
                out.append((op, rlen(tag + "cigar.len", op)))
            else:
                rem[0] -= reserve_tail
                n = qlen(tag + "cigar.len")
                rem[0] += reserve_tail
                out.append((op, n))
        elif op == "P":
            out.append((op, 1 + tape.draw(20, tag + "cigar.len")))
        else:
            out.append((op, rlen(tag + "cigar.len", op)))
        n_core += 1
    if trail_s:
        n = qlen(tag + "cigar.len")
        if n:
            out.append(("S", n))
    if trail_h:
        out.append(("H", 1 + tape.draw(20, tag + "cigar.len")))
    return out


def _gen_tags(tape, tag, budget):
    out = b""
    kinds = ["NM:C", "NM:i", "Z", "A", "s", "f", "H", "B"]
    while budget - len(out) > 12 and tape.more(tag + "tags.more", 1, 3):
        k = kinds[tape.draw(len(kinds), tag + "tags.kind")]
        if k == "NM:C":
            t = b"NMC" + struct.pack("<B", tape.draw(256, tag + "tags.v"))
        elif k == "NM:i":
            t = b"NMi" + struct.pack("<i", tape.draw(1 << 20, tag + "tags.v") - 1000)
        elif k == "Z":
            n = tape.draw(min(10, budget - len(out) - 4), tag + "tags.zlen")
            s = bytes(32 + tape.draw(95, tag + "tags.zch") for _ in range(n))
            t = b"RGZ" + s + b"\x00"
        elif k == "A":
            t = b"XAA" + bytes([33 + tape.draw(94, tag + "tags.v")])
        elif k == "s":
            t = b"ASs" + struct.pack("<h", tape.draw(65536, tag + "tags.v") - 32768)
        elif k == "f":
            t = b"XFf" + struct.pack("<f", (tape.draw(2001, tag + "tags.v") - 1000) / 8.0)
        elif k == "H":
            n = tape.draw(4, tag + "tags.hlen")
            s = "".join("0123456789ABCDEF"[tape.draw(16, tag + "tags.hch")] for _ in range(2 * n)).encode()
            t = b"XHH" + s + b"\x00"
        else:
            st = "cCsSiIf"[tape.draw(7, tag + "tags.bsub")]
            n = tape.draw(4, tag + "tags.blen")
            fmt = {"c": "<b", "C": "<B", "s": "<h", "S": "<H", "i": "<i", "I": "<I", "f": "<f"}[st]
            vals = b""
            for _ in range(n):
                v = tape.draw(100, tag + "tags.bv")
                vals += struct.pack(fmt, float(v) if st == "f" else v)
            t = b"XBB" + st.encode() + struct.pack("<I", n) + vals
        if len(out) + len(t) > budget:
            break
        out += t
    return out


def gen_record(tape, n_refs, max_lseq, max_ops, tag="", max_bytes=400, allow_unplaced=True):
    """allow_unplaced=False: never refID -1 (needs n_refs >= 1); such records become 'placed unmapped' ones"""
    name = _gen_name(tape, tag)
    budget = max_bytes - 36 - (len(name) + 1)
    placement = "unmapped" if n_refs == 0 else tape.weighted([(8, "mapped"), (2, "unmapped"), (1, "placed_unmapped")],
                                                             tag + "placement")
    if placement == "unmapped" and not allow_unplaced:
        assert n_refs > 0
        placement = "placed_unmapped"
    flag = 0
    if tape.boolean(tag + "flag.reverse", 1, 3):
        flag |= 0x10
    if tape.boolean(tag + "flag.paired", 1, 3):
        flag |= 0x1
        for bit in (0x2, 0x8, 0x20, 0x40, 0x80):
            if tape.boolean(tag + "flag.bit", 1, 3):
                flag |= bit
    for bit in (0x100, 0x200, 0x400, 0x800):
        if tape.boolean(tag + "flag.bit", 1, 8):
            flag |= bit
    cigar = []
    many = False
    if placement == "mapped":
        refid = tape.draw(n_refs, tag + "refid")
        mag = tape.weighted([(4, 1000), (2, 1 << 16), (1, 1 << 24), (1, (1 << 29) - 400000)], tag + "pos.mag")
        pos = tape.draw(mag, tag + "pos")
        mapq = tape.weighted([(1, 0), (2, 60), (1, 255), (2, -1)], tag + "mapq.kind")
        if mapq < 0:
            mapq = tape.draw(256, tag + "mapq")
        ops_cap = min(max_ops, max(budget // 8, 0))
        qcap = min(max_lseq, max((budget - 4 * ops_cap) * 2 // 3 - 2, 0))
        cigar = _gen_cigar(tape, tag, ops_cap, qcap)
        if tape.feature("bam_many_cigar_ops") and tape.boolean(tag + "cigar.many", 1, 160):
            # n_cigar_op is a uint16: counts of 16384 and more are valid (4 * n no longer fits 16 bits)
            n_ops = (16384 if tape.boolean(tag + "cigar.many.edge") else 16385 + tape.draw(49000 if tape.boolean(tag + "cigar.many.big", 1, 4) else 400, tag + "cigar.many.n"))
            cigar = [("M", 1) if i % 2 == 0 else ("D", 1) for i in range(n_ops)]
            many = True
    else:
        flag |= 0x4
        flag &= ~0x2 & 0xffff
        flag &= ~0x100 & 0xffff
        flag &= ~0x800 & 0xffff
        mapq = 0
        if placement == "placed_unmapped":
            refid = tape.draw(n_refs, tag + "refid")
            pos = tape.draw(1000, tag + "pos")
        else:
            refid, pos = -1, -1
    budget -= 4 * len(cigar)
    if cigar:
        # SEQ present: its length must equal the query length of the CIGAR; or SEQ absent ('*')
        l_seq = 0 if tape.boolean(tag + "seq.absent", 1, 10) else query_length(cigar)
    else:
        cap = min(max_lseq, max(budget * 2 // 3 - 2, 0))
        l_seq = tape.draw(cap + 1, tag + "lseq")
    if many:
        # thousands of bases: one repeated letter and one quality value, no draw per base
        l_seq = 0 if l_seq == 0 else query_length(cigar)
        letter = "ACGT"[tape.draw(4, tag + "seq.many.ch")]
        q = tape.draw(94, tag + "qual.many.v")
        return {"refid": refid, "pos": pos, "mapq": mapq, "flag": flag & ~0x1, "name": name, "cigar": cigar, "seq": letter * l_seq,
                "qual": [q] * l_seq, "tags": b"", "next_refid": -1, "next_pos": -1, "tlen": 0, "pad": 0}
    alpha = tape.weighted([(4, "ACGT"), (1, "ACGTN"), (2, SEQ_CODE)], tag + "seq.alpha")
    seq = "".join(alpha[tape.draw(len(alpha), tag + "seq.ch")] for _ in range(l_seq))
    pad = 0
    if l_seq % 2 == 1 and tape.boolean(tag + "seq.pad", 1, 5):
        pad = 1 + tape.draw(15, tag + "seq.padv")
    if l_seq > 0 and tape.boolean(tag + "qual.missing", 1, 10):
        qual = [0xFF] * l_seq
    else:
        qmode = tape.weighted([(2, "any"), (1, "const")], tag + "qual.mode")
        if qmode == "const":
            q = tape.draw(94, tag + "qual.v")
            qual = [q] * l_seq
        else:
            qual = [tape.draw(94, tag + "qual.v") for _ in range(l_seq)]
    budget -= (l_seq + 1) // 2 + l_seq
    tags = _gen_tags(tape, tag, max(budget, 0))
    if (flag & 0x1) and n_refs > 0 and tape.boolean(tag + "mate.placed", 1, 2):
        nrefid = tape.draw(n_refs, tag + "mate.refid")
        npos = tape.draw(100000, tag + "mate.pos")
        tlen = tape.draw(2001, tag + "mate.tlen") - 1000 if nrefid == refid else 0
    else:
        nrefid, npos, tlen = -1, -1, 0
    return {"refid": refid, "pos": pos, "mapq": mapq, "flag": flag, "name": name, "cigar": cigar, "seq": seq,
            "qual": qual, "tags": tags, "next_refid": nrefid, "next_pos": npos, "tlen": tlen, "pad": pad}


def gen_file(tape, max_records, max_refs=4, max_lseq=40, max_ops=12, tag="", allow_unplaced=True, rec_more=(4, 5)):
    """-> (header, records); reference lengths are chosen afterwards so that every alignment fits"""
    names = []
    while len(names) < max_refs and tape.more(tag + "refs.more", 3, 4):
        n = 1 + tape.draw(8, tag + "ref.len")
        if tape.boolean(tag + "ref.long", 1, 10):
            n += 20 + tape.draw(40, tag + "ref.longlen")
        nm = "".join(REF_ALPHABET[tape.draw(len(REF_ALPHABET), tag + "ref.ch")] for _ in range(n))
        if nm[0] in "=*" or nm in names:
            nm = nm + "_" + str(len(names))
        while nm in names:
            nm = nm + "_"
        names.append(nm)
    if not names and not allow_unplaced:
        names.append("c")
    records = []
    while len(records) < max_records and tape.more(tag + "records.more", rec_more[0], rec_more[1]):
        if records and tape.feature("bam_clone_record") and tape.boolean(tag + "r.clone", 1, 4):
            # a record of exactly the size of its predecessor (same name / CIGAR / sequence / tags, other position)
            r = dict(records[-1])
            if r["refid"] >= 0:
                r["pos"] = r["pos"] + 1 + tape.draw(50, tag + "r.clone.shift")
            records.append(r)
            continue
        records.append(gen_record(tape, len(names), max_lseq, max_ops, tag + "r.", allow_unplaced=allow_unplaced))
    refs = []
    for i, nm in enumerate(names):
        need = max([r["pos"] + max(ref_length(r["cigar"]), 1) for r in records if r["refid"] == i] +
                   [r["next_pos"] + 1 for r in records if r["next_refid"] == i] + [1])
        refs.append((nm, need + tape.draw(1000, tag + "ref.slack")))
    text_kind = tape.weighted([(2, "none"), (3, "hd_sq"), (1, "hd_sq_nul"), (1, "comment"), (1, "comment_utf8")], tag + "text")
    if text_kind == "none":
        text = b""
    else:
        text = b"@HD\tVN:1.6\tSO:unsorted\n" + b"".join(b"@SQ\tSN:%s\tLN:%d\n" % (nm.encode(), ln) for nm, ln in refs)
        if text_kind == "comment":
            text += b"@CO\tbnpsim model file\n"
        if text_kind == "comment_utf8":
            text += "@CO\tna\u00efve caf\u00e9 \u2713\n".encode("utf-8")     # the SAM spec allows UTF-8 in @CO lines
        if text_kind == "hd_sq_nul":
            text += b"\x00"
    return {"text": text, "refs": refs}, records
