"""Reference model of FASTA + faidx (.fai), written from the samtools `faidx` format description.

Shares no code with bionumpy: plain bytes / str / int().

    NAME        name of the reference sequence: the header line after '>' up to the first white space
    LENGTH      total length of the sequence, in bases
    OFFSET      offset in the FASTA file of this sequence's first base (bytes from the start of the file)
    LINEBASES   number of bases on each line
    LINEWIDTH   number of bytes in each line, including the newline (so LINEBASES+1 with LF, +2 with CRLF)

A record is well-formed for faidx iff every sequence line but the last has exactly LINEBASES bases and
the last line has 1..LINEBASES bases; names are unique.  Different records may use different widths.

Two independent computations of the index rows are provided and must agree (the harness asserts it):
`rows_of(spec)` derives them from the generator's parameters, `faidx(data)` scans the serialized bytes the
way htslib's fai_build does.  `faidx` is also what is cross-checked against the .fa/.fai pairs shipped in
the repository's example_data.

A *spec* is {"records": [{"name", "desc" (None | str), "seq", "width"}], "crlf": bool, "final_newline": bool}.
Index rows are tuples (name, length, offset, linebases, linewidth).
"""

COLUMNS = ("name", "length", "offset", "linebases", "linewidth")


class ModelError(Exception):
    """the bytes are not a FASTA file faidx would index (model-side validation)"""


# ---------------------------------------------------------------------------------------------
# generator (tape driven; 0 is always the simplest choice)

_BASES = [(6, "A"), (6, "C"), (6, "G"), (6, "T"), (2, "N"), (1, "a"), (1, "c"), (1, "g"), (1, "t"), (1, "n")]
_NAME_CHARS = "sxAZ09chr.-"          # no white space, no '_' (Genome.from_file ignores names with '_' by default)
# a description that starts with a TAB is separated from the name by that TAB instead of a space (appended at the end
# of the list: tapes stored earlier keep their meaning)
_DESC_WORDS = ["d", "desc", "len=12", "7", "two words", "0 1 2", "x  y", "\tlen=28 x", "\td"]


def gen_name(tape, i, used, label="name"):
    kind = tape.weighted([(3, "s"), (2, "chr"), (2, "num"), (2, "free")], label + ".kind")
    if kind == "s":
        name = f"s{i + 1}"
    elif kind == "chr":
        name = f"chr{i + 1}"
    elif kind == "num":
        name = str(i)
    else:
        w = tape.weighted([(3, 1), (3, 2), (2, 5), (1, 11)], label + ".w")
        name = "".join(_NAME_CHARS[tape.draw(len(_NAME_CHARS), label + ".c")] for _ in range(w))
    if name in used:           # names are unique in a file faidx accepts
        name = f"{name}.{i}"
        while name in used:
            name += "x"
    return name


def gen_width(tape, max_width, label="width"):
    kind = tape.weighted([(4, "small"), (2, "any"), (1, "max")], label + ".kind")
    if kind == "small":
        return 1 + tape.draw(min(12, max_width), label)
    if kind == "any":
        return 1 + tape.draw(max_width, label)
    return max_width


def gen_length(tape, width, max_len, label="len"):
    """1..max_len, biased to lengths on / just around multiples of the wrap width and to single lines"""
    kind = tape.weighted([(3, "free"), (2, "multiple"), (2, "multiple+1"), (1, "multiple-1"), (2, "single_line")],
                         label + ".kind")
    if kind == "free":
        n = 1 + tape.draw(max_len, label)
    elif kind == "single_line":
        n = 1 + tape.draw(min(width, max_len), label)
    else:
        m = 1 + tape.draw(max(1, max_len // width), label + ".m")
        n = m * width + {"multiple": 0, "multiple+1": 1, "multiple-1": -1}[kind]
    return max(1, min(n, max_len))


def gen_record(tape, i, used, max_len, max_width, allow_desc=True, label="rec"):
    name = gen_name(tape, i, used, label + ".name")
    desc = None
    if allow_desc and tape.boolean(label + ".has_desc", 1, 3):
        desc = tape.choice(_DESC_WORDS, label + ".desc")
    width = gen_width(tape, max_width, label + ".width")
    n = gen_length(tape, width, max_len, label + ".len")
    seq = "".join(tape.weighted(_BASES, label + ".b") for _ in range(n))
    return {"name": name, "desc": desc, "seq": seq, "width": width}


def gen_fasta(tape, max_records, max_len, max_width, allow_desc=True, allow_crlf=True, allow_nofinal=True):
    # one draw (stable tape alignment): LF with final newline | CRLF | LF, file ends without a newline
    style = tape.weighted([(10, "lf"), (1, "crlf"), (1, "lf_nofinal")], "style")
    crlf = bool(allow_crlf and style == "crlf")
    final_newline = not (allow_nofinal and style == "lf_nofinal")
    records, used = [], set()
    while True:
        r = gen_record(tape, len(records), used, max_len, max_width, allow_desc)
        used.add(r["name"])
        records.append(r)
        if len(records) >= max_records or not tape.more("more_records", 2, 3):
            break
    return {"records": records, "crlf": crlf, "final_newline": final_newline}


# ---------------------------------------------------------------------------------------------
# serialisation and the two index computations

def header_line(rec):
    if rec["desc"] is not None and rec["desc"].startswith("\t"):
        return ">" + rec["name"] + rec["desc"]
    return ">" + rec["name"] + ("" if rec["desc"] is None else " " + rec["desc"])


def serialize(spec):
    nl = "\r\n" if spec["crlf"] else "\n"
    out = []
    for rec in spec["records"]:
        out.append(header_line(rec) + nl)
        s, w = rec["seq"], rec["width"]
        for j in range(0, len(s), w):
            out.append(s[j:j + w] + nl)
    data = "".join(out).encode("ascii")
    if not spec["final_newline"]:
        data = data[:-len(nl)]
    return data


def rows_of(spec):
    """index rows from the generator's parameters (arithmetic only)"""
    nl = 2 if spec["crlf"] else 1
    rows, pos = [], 0
    for rec in spec["records"]:
        n, w = len(rec["seq"]), rec["width"]
        pos += len(header_line(rec)) + nl
        linebases = min(n, w)
        rows.append((rec["name"], n, pos, linebases, linebases + nl))
        n_lines = (n + w - 1) // w
        pos += n + n_lines * nl
    return rows


def _isgraph(c):
    return 33 <= c <= 126


def faidx(data):
    """index rows by scanning the bytes (htslib fai_build: name = first word; per line ll = bytes up to and
    including the LF — counted even when the file ends without one —, cl = printable characters)"""
    rows, names = [], set()
    cur = None          # [name, length, offset, linebases, linewidth, closed]
    pos, size = 0, len(data)
    if size == 0:
        raise ModelError("empty file")
    while pos < size:
        end = data.find(b"\n", pos)
        nxt = size if end < 0 else end + 1
        line = data[pos:(size if end < 0 else end)]
        if line[:1] == b">":
            if cur is not None:
                rows.append(tuple(cur[:5]))
            words = line[1:].split()
            if not words or line[1:2].isspace():
                raise ModelError("empty sequence name")
            name = words[0].decode("ascii")
            if name in names:
                raise ModelError("duplicate name " + name)
            names.add(name)
            cur = [name, 0, nxt, 0, 0, False]
        else:
            if cur is None:
                raise ModelError("sequence data before the first header")
            cl = sum(1 for c in line if _isgraph(c))
            ll = len(line) + 1
            if cl == 0:
                raise ModelError("empty line inside a record")
            if cur[5]:
                raise ModelError("a line follows a short line in " + cur[0])
            if cur[4] == 0:
                cur[3], cur[4] = cl, ll
            elif ll > cur[4] or cl > cur[3]:
                raise ModelError("different line length in " + cur[0])
            elif ll < cur[4] or cl < cur[3]:
                cur[5] = True      # a shorter line must be the last one of its record
            cur[1] += cl
        pos = nxt
    if cur is None:
        raise ModelError("no record")
    rows.append(tuple(cur[:5]))
    return rows


def render_fai(rows):
    return "".join("\t".join(str(x) for x in row) + "\n" for row in rows).encode("ascii")


def parse_fai(data):
    """total parser of a .fai: -> (rows | None, problem | None).  Five tab-separated columns per line,
    columns 2..5 decimal integers; the name column is returned verbatim."""
    try:
        text = data.decode("utf-8")
    except Exception:
        return None, "not text"
    lines = text.split("\n")
    if lines and lines[-1] == "":
        lines.pop()
    rows = []
    for i, line in enumerate(lines):
        cols = line.rstrip("\r").split("\t")
        if len(cols) != 5:
            return None, f"line {i}: {len(cols)} columns: {line[:80]!r}"
        try:
            nums = [int(c) for c in cols[1:]]
        except ValueError:
            return None, f"line {i}: non-integer column: {line[:80]!r}"
        rows.append((cols[0],) + tuple(nums))
    return rows, None


def compare_rows(expected, got, skip=()):
    """-> None | (kind, detail); numeric columns are judged before the name so that a name-only difference
    and an arithmetic difference fall into different classes.  skip: set of (row, column) not compared."""
    if len(expected) != len(got):
        return "n_rows", {"expected_rows": len(expected), "got_rows": len(got), "expected": expected[:8], "got": got[:8]}
    for col in (1, 2, 3, 4, 0):
        for i, (e, g) in enumerate(zip(expected, got)):
            if (i, COLUMNS[col]) in skip:
                continue
            if e[col] != g[col]:
                return COLUMNS[col], {"row": i, "column": COLUMNS[col], "expected": list(e), "got": list(g)}
    return None


# ---------------------------------------------------------------------------------------------
# fetching and interval generation

def fetch(spec, rec_index, a, b):
    s = spec["records"][rec_index]["seq"]
    assert 0 <= a < b <= len(s), (a, b, len(s))
    return s[a:b]


def record_spans(spec):
    """per record (offset of the first base, offset one past its last base) in the serialized file"""
    nl = 2 if spec["crlf"] else 1
    out = []
    for rec, row in zip(spec["records"], rows_of(spec)):
        n, w = len(rec["seq"]), rec["width"]
        out.append((row[2], row[2] + n + ((n - 1) // w) * nl))
    return out


def gen_point(tape, n, w, label):
    """a coordinate in 0..n biased to line breaks (multiples of w): on, just before, just after"""
    kind = tape.weighted([(2, "uniform"), (2, "on"), (1, "before"), (1, "after"), (1, "end")], label + ".kind")
    if kind == "uniform":
        return tape.draw(n + 1, label)
    if kind == "end":
        return n
    m = tape.draw(n // w + 1, label + ".m") * w
    p = m + {"on": 0, "before": -1, "after": 1}[kind]
    return max(0, min(n, p))


def gen_interval(tape, n, w, label="iv"):
    """in-bounds, non-empty: 0 <= a < b <= n"""
    p, q = gen_point(tape, n, w, label + ".p"), gen_point(tape, n, w, label + ".q")
    a, b = min(p, q), max(p, q)
    if a == b:
        if b < n:
            b += 1
        else:
            a -= 1
    return a, b


def all_intervals(n):
    return [(a, b) for a in range(n) for b in range(a + 1, n + 1)]


def pos_class(p, w, n):
    """where a coordinate falls relative to the line breaks of a record wrapped at w"""
    if w == 1:
        return "w1"
    r = p % w
    if r == 0:
        return "on"
    if r == 1:
        return "after"
    if r == w - 1:
        return "before"
    return "mid"
