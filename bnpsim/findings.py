"""Known findings: committed file /verif/known_findings.json + matcher predicates (committed code, never
changed at run time).  A matcher looks at specific input/history features of the *minimised* scenario —
never at the seed, never at "any failure of this property"."""
import json
import os

VERIF = os.path.dirname(os.path.dirname(os.path.abspath(__file__)))
_FILE = os.path.join(VERIF, "known_findings.json")


def _load():
    if not os.path.exists(_FILE):
        return []
    with open(_FILE) as f:
        return json.load(f).get("findings", [])


def entries(prop):
    return [e for e in _load() if e.get("property") == prop]


# predicate name -> function(violation, scenario) -> bool
PREDICATES = {}


def predicate(name):
    def deco(f):
        PREDICATES[name] = f
        return f
    return deco


def match(prop, viol, scenario):
    """-> id of the open finding whose predicate matches the minimised scenario, else None"""
    for e in entries(prop):
        if e.get("status") != "open":
            continue
        pred = PREDICATES.get(e.get("predicate", ""))
        if pred is None:
            continue
        try:
            if pred(viol, scenario):
                return e["id"]
        except Exception:
            continue
    return None


# ---------------------------------------------------------------------------------------------
# predicates of open findings

@predicate("gtf_noncanonical_source_rewritten")
def _gtf_noncanonical(viol, scenario):
    """KF-C04-gtf-always-eager: GTF is parsed eagerly by design (npdataclassreader._should_be_lazy), so writing
    back re-serialises the table: non-canonical integer spellings in start/stop and CRLF line ends are normalised."""
    f = scenario.get("file") or {}
    if f.get("format") != "gtf" or viol.oracle not in ("write_back_exact", "write_back_fields"):
        return False
    if not viol.kind.startswith("gtf."):
        return False
    if (f.get("style") or {}).get("crlf"):
        return True
    for r in f.get("records") or []:
        for fname in ("start", "stop"):
            t = r["texts"][fname]
            if t != str(int(t)):
                return True
    return False


@predicate("lazy_single_index_typeerror")
def _lazy_single_index(viol, scenario):
    """KF-C05-lazy-single-index: t[i] (one integer) on a lazily read table raises TypeError in
    npstructures.indexablearray._get_row (int() of a size-1 array, numpy >= 2) while the eager twin returns the entry."""
    d = viol.detail
    return (viol.oracle == "twin" and viol.kind.endswith(".item.one_fails")
            and (d.get("op") or {}).get("op") == "item"
            and str(d.get("lazy_result", "")).strip('"') == "Raised:TypeError"
            and not str(d.get("eager_result", "")).strip('"').startswith("Raised"))


@predicate("bam_eager_write_unsupported")
def _bam_eager_write(viol, scenario):
    """KF-C05-bam-eager-write-unsupported: an eagerly read BAM table cannot be written (BamBuffer has no from_data and the
    eager table carries no header context: KeyError 'header'), the lazily read twin writes fine."""
    d = viol.detail
    return (viol.oracle == "twin" and viol.kind == "bam.write.one_fails" and scenario.get("kind") == "bam"
            and str(d.get("eager_result", "")).strip('"').startswith("Raised")
            and not str(d.get("lazy_result", "")).strip('"').startswith("Raised"))


@predicate("ragged_key_stream_groupby_typeerror")
def _ragged_key_groupby(viol, scenario):
    """KF-C11-ragged-key-groupby-typeerror: bnp.groupby over a STREAM whose grouping column is ragged text (a `str`-typed
    field) raises TypeError inside npstructures (int() of a size-1 array, numpy >= 2) for every chunking, while the
    in-memory group-by of the same table works."""
    case = scenario.get("case") or {}
    return (viol.oracle == "stream_eq_memory" and viol.kind == "groupby.groupby_chromosome_strkey:raises"
            and case.get("op") == "groupby_chromosome_strkey" and "TypeError" in str(viol.detail.get("error", "")))


@predicate("typed_info_eager_write_unsupported")
def _typed_info_eager_write(viol, scenario):
    """KF-C05-typed-info-eager-write-unsupported: an eagerly read VCF whose header declares INFO keys has a table-valued
    info column that the writer has no serialiser for (KeyError), the lazily read twin passes its source bytes through."""
    f = scenario.get("file") or {}
    d = viol.detail
    if f.get("format") != "vcfinfo" or viol.oracle != "twin":
        return False
    eager = str(d.get("eager_result", "")).strip('"')
    lazy = str(d.get("lazy_result", "")).strip('"')
    return (viol.kind in ("vcfinfo.write.one_fails", "vcfinfo.final_write.differs")
            and eager.startswith("Raised:KeyError") and not lazy.startswith("Raised"))


@predicate("int64_min_written_as_minus_two")
def _int64_min(viol, scenario):
    """KF-C03-int64-min: ints_to_strings takes np.abs of the column; for the most negative int64 that overflows and the
    value is written as '-2'.  Only that one value, only in the field the violation names."""
    d = viol.detail
    return (viol.oracle in ("canonical", "single_write", "prefix", "composable", "read_back")
            and str(d.get("expected")) == str(-2 ** 63) and str(d.get("got")) == "-2")


@predicate("incomplete_last_fastq_record_dropped")
def _incomplete_last_record(viol, scenario):
    """KF-C15-incomplete-last-record: a FASTQ file whose LAST record lacks its '+' line ends with three lines that do not
    make an entry; the reader leaves such a tail out without an error at the end of the file."""
    f = scenario.get("file") or {}
    fault = scenario.get("fault") or {}
    if not (viol.oracle == "must_raise" and f.get("format") == "fastq" and fault.get("class") == "plus_removed"):
        return False
    if fault.get("record") == f.get("n_records", 0) - 1:
        return True
    # the '+' line of an EARLIER record is missing and the shifted lines happen to pass as records (a quality line that
    # starts with '+', a header of the right length taken for qualities): what is left at the end of the file is again
    # an incomplete entry, and that alone is why nothing is reported - every complete group of four lines was delivered
    from . import core
    bad = core.unesc(scenario.get("bad_data", ""))
    n_lines = bad.count(b"\n") + (0 if bad.endswith(b"\n") or not bad else 1)
    try:
        n_rows = int(viol.detail.get("n_rows"))
    except (TypeError, ValueError):
        return False
    return n_lines % 4 != 0 and n_rows == n_lines // 4
