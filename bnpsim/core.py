"""Core types of the simulator: violations, the call bracket for the system under simulation,
seams (repo import, process-global state reset, chunk-size knob), total comparison helpers."""
import contextlib
import hashlib
import importlib
import io
import json
import logging
import math
import os
import sys

REPO = os.environ.get("BNPSIM_REPO", "/repo")


class Violation(Exception):
    """An oracle failed on the system under simulation."""

    def __init__(self, oracle, kind, detail=None, rewrite=None):
        super().__init__(f"{oracle}/{kind}")
        self.oracle = oracle      # name of the oracle
        self.kind = kind          # failing-op kind (part of the violation class)
        self.detail = detail or {}
        self.rewrite = rewrite    # tape label overrides that re-express the failure (sweep -> fixed k)

    @property
    def klass(self):
        return (self.oracle, self.kind)


class Inconclusive(Exception):
    """the run cannot judge the property (e.g. the reference itself raises); counted, never a pass"""

    def __init__(self, reason):
        super().__init__(reason)
        self.reason = reason


class Raised:
    """result of a call into the system under simulation that raised"""

    def __init__(self, exc):
        # the traceback keeps the frames of the failed call alive (readers, file handles, buffers) in a reference cycle
        # that only the cyclic collector frees - at a moment no seed decides, and freeing a handle is an event in the
        # simulated file system's log.  Without tracebacks the objects go away by reference count, deterministically.
        todo, seen = [exc], set()
        while todo:
            e = todo.pop()
            if e is None or id(e) in seen:
                continue
            seen.add(id(e))
            e.__traceback__ = None
            todo += [e.__cause__, e.__context__]
        self.exc = exc
        self.type = type(exc).__name__
        self.msg = str(exc)[:300]

    def __repr__(self):
        return f"Raised({self.type}: {self.msg})"


def call(fn, *args, **kwargs):
    """Run one call into bionumpy. Exceptions of the library are values, not harness errors."""
    from .simfs import ProgressBudgetExceeded
    try:
        return fn(*args, **kwargs)
    except ProgressBudgetExceeded:
        raise
    except (KeyboardInterrupt, SystemExit, MemoryError):
        raise
    except BaseException as e:  # noqa
        return Raised(e)


def raised(x):
    return isinstance(x, Raised)


# ---------------------------------------------------------------------------------------------
# repo import + process-global state

_bnp = None


def bnp():
    """import bionumpy from the working tree under test (fresh process => fresh import == rebuild)"""
    global _bnp
    if _bnp is None:
        repo = os.path.abspath(REPO)
        if sys.path[0] != repo:
            sys.path.insert(0, repo)
        logging.disable(logging.CRITICAL)
        import bionumpy
        got = os.path.abspath(bionumpy.__file__)
        if not got.startswith(repo + os.sep):
            raise RuntimeError(f"bionumpy imported from {got}, expected under {repo}")
        _bnp = bionumpy
    return _bnp


def reset_process_globals():
    """a run must be a pure function of its tape: reset class-level caches and config"""
    b = bnp()
    from bionumpy.io.vcf_buffers import VCFBuffer
    VCFBuffer.info_cache.clear()
    VCFBuffer.vcfentry_cache.clear()
    import bionumpy.config as config
    config.LAZY = True
    config.STRING_ARRAY = True
    try:
        from bionumpy.bnpdataclass.lazybnpdataclass import ItemGetter
        ItemGetter.n_entries.cache_clear()
    except Exception:
        pass
    try:
        from bionumpy.io.bam import BamBufferExtractor
        for name in dir(BamBufferExtractor):
            f = getattr(BamBufferExtractor, name, None)
            if hasattr(f, "cache_clear"):
                f.cache_clear()
    except Exception:
        pass
    return b


_KNOB_TARGETS = None


def _knob_targets():
    global _KNOB_TARGETS
    if _KNOB_TARGETS is None:
        bnp()
        from bionumpy.io.parser import NumpyFileReader
        from bionumpy.io.npdataclassreader import NpDataclassReader
        t = []
        for cls in (NumpyFileReader, NpDataclassReader):
            for name in ("read_chunk", "read_chunks", "_get_buffer"):
                f = getattr(cls, name, None)
                if f is not None and getattr(f, "__defaults__", None):
                    t.append((f, f.__defaults__))
        _KNOB_TARGETS = t
    return _KNOB_TARGETS


@contextlib.contextmanager
def chunk_knob(k):
    """set the library's built-in default chunk size (function defaults) for the duration of a run"""
    targets = _knob_targets()
    try:
        if k is not None:
            for f, d in targets:
                f.__defaults__ = tuple(k if (isinstance(x, int) and x == 5000000) else x for x in d)
        yield
    finally:
        for f, d in targets:
            f.__defaults__ = d


@contextlib.contextmanager
def quiet():
    """the library prints from hot paths; never consulted by an oracle"""
    old = sys.stdout
    sys.stdout = io.StringIO()
    try:
        yield
    finally:
        sys.stdout = old


# ---------------------------------------------------------------------------------------------
# total comparison helpers (a value of an unexpected type is a mismatch, never a harness exception)

def plain(x, depth=0):
    """render a library value as plain python (lists / str / int / float / bool / None)"""
    import numpy as np
    if depth > 6:
        return repr(x)[:200]
    if x is None or isinstance(x, (bool, int, str)):
        return x
    if isinstance(x, float):
        return x
    if isinstance(x, bytes):
        return x.decode("latin1")
    if isinstance(x, np.generic):
        return plain(x.item(), depth + 1)
    if isinstance(x, (list, tuple)):
        return [plain(y, depth + 1) for y in x]
    if isinstance(x, dict):
        return {str(k): plain(v, depth + 1) for k, v in x.items()}
    try:
        b = bnp()
        from bionumpy.encoded_array import EncodedArray, EncodedRaggedArray
        from bionumpy.bnpdataclass import BNPDataClass
        if isinstance(x, EncodedRaggedArray):
            return [plain(r, depth + 1) for r in x.tolist()]
        if isinstance(x, EncodedArray):
            from bionumpy.encoded_array import NumericEncoding
            if isinstance(x.encoding, NumericEncoding):
                return plain(x.raw().tolist(), depth + 1)
            if x.ndim == 0:
                return x.to_string()
            if x.ndim == 1:
                # a column with one symbol per row
                try:
                    return list(x.to_string())
                except Exception:
                    return [plain(v, depth + 1) for v in x.raw().tolist()]
            return [plain(r, depth + 1) for r in x]
        if type(x).__name__ == "StringArray" and hasattr(x, "raw"):
            return plain(np.asarray(x.raw()).tolist(), depth + 1)
        if isinstance(x, BNPDataClass):
            import dataclasses
            return {f.name: plain(getattr(x, f.name), depth + 1) for f in dataclasses.fields(x)}
    except Exception as e:  # rendering must be total
        return f"<unrenderable {type(x).__name__}: {e}>"
    if isinstance(x, np.ndarray):
        return plain(x.tolist(), depth + 1)
    if hasattr(x, "tolist"):
        try:
            return plain(x.tolist(), depth + 1)
        except Exception as e:
            return f"<unrenderable {type(x).__name__}: {e}>"
    return repr(x)[:200]


def same(a, b, rel=1e-9, abs_=0.0):
    """total structural equality on plain values, floats with tolerance, NaN == NaN"""
    if isinstance(a, bool) or isinstance(b, bool):
        return isinstance(a, (bool, int)) and isinstance(b, (bool, int)) and int(a) == int(b)
    if isinstance(a, (int, float)) and isinstance(b, (int, float)):
        if isinstance(a, int) and isinstance(b, int):
            return a == b
        fa, fb = float(a), float(b)
        if math.isnan(fa) or math.isnan(fb):
            return math.isnan(fa) and math.isnan(fb)
        if math.isinf(fa) or math.isinf(fb):
            return fa == fb
        return math.isclose(fa, fb, rel_tol=rel, abs_tol=abs_)
    if isinstance(a, str) and isinstance(b, str):
        return a == b
    if isinstance(a, (list, tuple)) and isinstance(b, (list, tuple)):
        return len(a) == len(b) and all(same(x, y, rel, abs_) for x, y in zip(a, b))
    if isinstance(a, dict) and isinstance(b, dict):
        return a.keys() == b.keys() and all(same(a[k], b[k], rel, abs_) for k in a)
    if a is None or b is None:
        return a is None and b is None
    return False


def short(x, n=400):
    s = x if isinstance(x, str) else json.dumps(x, default=repr)
    return s if len(s) <= n else s[:n] + f"...(+{len(s) - n})"


def digest(obj):
    return hashlib.sha256(json.dumps(obj, sort_keys=True, default=repr).encode()).hexdigest()[:16]


def esc(b):
    """bytes -> escaped printable string for replay files"""
    return b.decode("latin1").encode("unicode_escape").decode("ascii")


# ---------------------------------------------------------------------------------------------
# per-run context

class RunCtx:
    """what one run of a scenario records besides its verdict"""

    def __init__(self, tape, tier, prop, excl=True):
        self.tape = tape
        self.tier = tier
        self.prop = prop
        self.excl = excl            # apply the narrow generator exclusions of open known findings
        self.scenario = {}          # rendered scenario: generator decisions only (for replay files, evidence, drift check)
        self.trace = {}             # execution trace (depends on the code under simulation)
        self.probes = {}            # reach probes: name -> count
        self.states = set()         # distinct abstract states reached
        self.faults = {}            # fault kind -> times fired
        self.steps = 0              # logical steps (scheduler steps)
        self.evals = 0              # oracle evaluations (e.g. chunked reads compared)
        self.io_events = 0
        self.transcript = []        # compact operation transcript (digest input)

    def probe(self, name, n=1):
        self.probes[name] = self.probes.get(name, 0) + n

    def fault(self, name, n=1):
        self.faults[name] = self.faults.get(name, 0) + n

    def state(self, *key):
        self.states.add("|".join(str(k) for k in key))

    def note(self, *items):
        self.transcript.append(items)


def unesc(s):
    """inverse of esc()"""
    return s.encode("ascii").decode("unicode_escape").encode("latin1")
