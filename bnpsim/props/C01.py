"""C01 — chunked reading loses, duplicates or reorders no entry, for any chunk size  (iosim)"""
from .. import core, simfs
from ..core import Violation, Inconclusive, raised
from ..engines import iosim
from ..models import text as T

ID = "C01"
LEVEL = "exploration"
ENGINE = "iosim"
RULE = ("one evaluation = one chunked read of a generated well-formed file on simulated storage compared entry by entry "
        "with read() of the same bytes in the same mode (plus NumpyFileReader-level byte conservation). A case is "
        "non-trivial if the read needed >= 2 chunks; distinct = distinct tuples (format, CRLF, final newline, storage, "
        "lazy flag, route, schedule kind, relation of k to file size and to the largest entry, divisibility of the size by k, "
        "number of chunks bucket, fault kind)")

FORMAT_WEIGHTS = [(3, "bed3"), (2, "bed6"), (2, "bdg"), (2, "narrowpeak"), (2, "vcf"), (2, "sam"), (2, "gtf"),
                  (3, "fasta2"), (3, "fastaw"), (3, "fastq")]
SCHEDS = [(2, "fixed"), (4, "sweep"), (2, "varying"), (1, "default_iter"), (1, "default_stream")]


def _weighted_first_value(pairs, item):
    acc = 0
    for w, it in pairs:
        if it == item:
            return acc
        acc += w
    raise KeyError(item)


def make_file(ctx, tag, max_records):
    tape = ctx.tape
    fmt = T.FORMATS[tape.weighted(FORMAT_WEIGHTS, tag + "fmt")]
    style = T.gen_style(tape, fmt)
    if fmt.name == "sam" and ctx.excl:
        style["crlf"] = False   # KF-C02-sam-crlf: SAM with CRLF cannot be read at all (reference raises)
    records = T.gen_records(tape, fmt, max_records, noncanon=True)
    data, lay = T.serialize(fmt, records, style)
    stored, ext, sdesc = iosim.draw_storage(tape, data)
    path = f"/sim/{tag}f{fmt.suffix}{ext}"
    lazy = tape.choice([None, True, False], tag + "lazy")
    route = tape.weighted([(3, "path"), (1, "handle")], tag + "route")
    spec = iosim.ReaderSpec(fmt, path, sdesc["gzip"], lazy, route)
    return {"fmt": fmt, "style": style, "records": records, "data": data, "lay": lay, "stored": stored,
            "spec": spec, "sdesc": sdesc}


def largest_entry(lay):
    return max((r["end"] - r["start"] for r in lay["records"]), default=0) + 2


def describe(f):
    return {"format": f["fmt"].name, "style": f["style"], "storage": f["sdesc"], "lazy": f["spec"].lazy,
            "route": f["spec"].route, "path": f["spec"].path, "n_records": len(f["records"]),
            "size": len(f["data"]), "data": core.esc(f["data"])}


def relation(k, size, big):
    r1 = "k<entry" if k < big else ("k<2entry" if k < 2 * big else ("k<size" if k < size else ("k==size" if k == size else "k>size")))
    div = "div" if size % k == 0 else "nodiv"
    return r1, div


def check_read(ctx, f, cr, k_eff, ref_rows, sched, fault=None):
    """judge one finished ChunkedRead against the reference"""
    size = len(f["data"])
    big = largest_entry(f["lay"])
    ctx.evals += 1
    nch = len(cr.chunk_sizes)
    r1, div = relation(k_eff, size, big)
    ctx.state(f["fmt"].name, f["style"]["crlf"], f["style"]["final_newline"], f["sdesc"]["gzip"], f["spec"].lazy,
              f["spec"].route, sched, r1, div, min(nch, 4), fault)
    if nch >= 2:
        ctx.probe("multi_chunk")
    if any(n == 1 for n in cr.chunk_sizes):
        ctx.probe("chunk_with_one_entry")
    if size % k_eff == 0:
        ctx.probe("size_multiple_of_k")
    if not f["style"]["final_newline"]:
        ctx.probe("tail_without_newline")
    if f["style"]["crlf"]:
        ctx.probe("crlf")
    detail = {"file": describe(f), "schedule": sched, "k": k_eff, "chunks": cr.chunk_sizes[:20]}
    if cr.error is not None:
        if fault == "eio":
            return  # the injected error surfaced (or something else raised): allowed under eio
        if cr.error.type == "NoProgress":
            raise Violation("progress", "no_end_of_stream", detail)
        if k_eff < 2 * big + 2:
            ctx.probe("raise_small_k_accepted")
            return
        detail["error"] = repr(cr.error)
        raise Violation("chunked_eq_whole", "raises", detail)
    diff = iosim.compare_rows(ref_rows, cr.rows)
    if diff is not None:
        kind, d = diff
        detail.update(d)
        raise Violation("chunked_eq_whole", kind, detail)


def run(ctx):
    tape = ctx.tape
    thorough = ctx.tier == "thorough"
    max_records = 12 if thorough else 6
    f = make_file(ctx, "", max_records)
    size = len(f["data"])
    sched = tape.weighted(SCHEDS, "sched")
    k_drawn = 1 + tape.draw(size + 2, "k")
    nvar = 1 + tape.draw(4, "nvar")
    ks_var = [1 + tape.draw(size + 2, "kvar") for _ in range(nvar)]
    interleave = tape.boolean("interleave", 1, 5)
    eio = tape.boolean("eio", 1, 8)
    ctx.scenario = {"file": describe(f), "schedule": sched, "k": k_drawn, "ks_varying": ks_var,
                    "interleave": interleave, "eio": eio}
    fs = simfs.SimFS(event_budget=200000 if sched == "sweep" else 20000)
    fs.put(f["spec"].path, f["stored"])
    body = f["data"][f["lay"]["header_len"]:]
    g = None
    if interleave and sched != "sweep":
        g = make_file(ctx, "b.", max_records)
        fs.put(g["spec"].path, g["stored"])
        ctx.scenario["file_b"] = describe(g)
    big = largest_entry(f["lay"])

    with simfs.Mount(fs), core.quiet():
        ref = iosim.read_whole(f["spec"])
        if raised(ref):
            raise Inconclusive("reference read() raises: " + ref.type)
        if sched == "sweep":
            # deterministic inner loop: every k from 1 to size + 2
            for k in range(1, size + 3):
                with core.chunk_knob(None):
                    cr = iosim.ChunkedRead(f["spec"], k, stream_api=(k % 2 == 0)).run_to_end()
                ctx.steps += len(cr.chunk_sizes) + 1
                try:
                    check_read(ctx, f, cr, k, ref, "sweep")
                    if k >= big:
                        msg = iosim.raw_conservation(f["spec"], k, body)
                        if raised(msg):
                            if k >= 2 * big + 2:
                                raise Violation("byte_conservation", "raises",
                                                {"file": describe(f), "k": k, "error": repr(msg)})
                        elif msg is not None:
                            msg.update({"file": describe(f), "k": k})
                            raise Violation("byte_conservation", "bytes", msg)
                except Violation as v:
                    v.rewrite = {"sched": _weighted_first_value(SCHEDS, "fixed"), "k": k - 1}
                    raise
        else:
            if sched == "fixed":
                ks, k_eff, use_default, stream_api = k_drawn, k_drawn, False, tape.boolean("stream_api")
            elif sched == "varying":
                ks, k_eff, use_default, stream_api = ks_var, min(ks_var), False, False
            elif sched == "default_iter":
                ks, k_eff, use_default, stream_api = k_drawn, k_drawn, True, False
            else:
                ks, k_eff, use_default, stream_api = k_drawn, k_drawn, True, True
            fault = None
            if eio:
                nth = 1 + tape.draw(6, "eio.nth")
                fs.plant_eio(f["spec"].path, "read", nth)
                fault = "eio"
            with core.chunk_knob(k_eff if use_default else None):
                actors = [iosim.ChunkedRead(f["spec"], ks, use_default=use_default, stream_api=stream_api)]
                refs = [ref]
                files = [f]
                if g is not None:
                    kb = 1 + tape.draw(len(g["data"]) + 2, "b.k")
                    refb = iosim.read_whole(g["spec"])
                    if not raised(refb):
                        actors.append(iosim.ChunkedRead(g["spec"], kb))
                        refs.append(refb)
                        files.append(g)
                live = list(range(len(actors)))
                order = []
                while live and ctx.steps < 2000:
                    a = live[tape.draw(len(live), "sched.actor")] if len(live) > 1 else live[0]
                    order.append(a)
                    ctx.steps += 1
                    if not actors[a].step():
                        live.remove(a)
                if len(actors) > 1:
                    ctx.probe("interleaved_readers")
            ctx.trace["interleaving"] = order[:60]
            for fname, n in fs.fault_fired.items():
                ctx.fault(fname, n)
            fired = bool(fs.fault_fired)
            fs.faults.clear()   # a planted fault that did not fire must not leak into the follow-up reads
            check_read(ctx, f, actors[0], k_eff, refs[0], sched, fault="eio" if fired else None)
            if len(actors) > 1:
                kb_eff = actors[1].ks
                check_read(ctx, files[1], actors[1], kb_eff, refs[1], "fixed")
            if not fired and sched in ("fixed",) and k_eff >= big:
                msg = iosim.raw_conservation(f["spec"], k_eff, body)
                if raised(msg):
                    if k_eff >= 2 * big + 2:
                        raise Violation("byte_conservation", "raises", {"file": describe(f), "k": k_eff, "error": repr(msg)})
                elif msg is not None:
                    msg.update({"file": describe(f), "k": k_eff})
                    raise Violation("byte_conservation", "bytes", msg)
    ctx.io_events += fs.seq
    ctx.note("C01", f["fmt"].name, sched, size, fs.seq, core.digest(fs.log))
