"""C01 — chunked reading loses, duplicates or reorders no entry, for any chunk size  (iosim)

generate(ctx) -> scenario (JSON-able, every decision of the run, drawn from the tape)
execute(ctx, scenario)   (tape-free: replay files re-execute the stored scenario literally)
"""
from .. import core, simfs
from ..core import Violation, Inconclusive, raised
from ..engines import iosim
from ..models import text as T

ID = "C01"
LEVEL = "exploration"
ENGINE = "iosim"
RULE = ("one evaluation = one chunked read of a generated well-formed file on simulated storage compared entry by entry "
        "with read() of the same bytes in the same mode (plus NumpyFileReader-level byte conservation). A case is "
        "non-trivial if the read needed >= 2 chunks; distinct = distinct tuples (format, CRLF, final newline, storage, "
        "lazy flag, route, schedule kind, relation of k to file size and to the largest entry, divisibility of the size by k, "
        "number of chunks bucket, fault kind)")

FORMAT_WEIGHTS = [(3, "bed3"), (2, "bed6"), (2, "bdg"), (2, "narrowpeak"), (2, "vcf"), (2, "vcfinfo"), (1, "vcfgt"), (1, "wig"), (1, "gff3"), (1, "gfa"), (1, "pairs"), (2, "sam"), (2, "gtf"),
                  (3, "fasta2"), (3, "fastaw"), (3, "fastq"), (1, "bed12"), (1, "sizes")]
SCHEDS = [(2, "fixed"), (4, "sweep"), (2, "varying"), (1, "default_iter"), (1, "default_stream"), (2, "capped")]


def _weighted_first_value(pairs, item):
    acc = 0
    for w, it in pairs:
        if it == item:
            return acc
        acc += w
    raise KeyError(item)


# ---------------------------------------------------------------------------------------------
# file scenarios (shared with C02 / C15 / C04 ...)

def gen_file(ctx, tag, max_records, format_weights=None, allow_mixed_optint=False, noncanon=True,
             allow_gzip=True, lazy_choices=(None, True, False), canonical=False, prefer_mixed_optint=False):
    """draws a file description; JSON-able.  canonical: the file is exactly what the library's writer would emit for
    its values (LF, repr floats, no missing markers, no extra columns)"""
    tape = ctx.tape
    fmt = T.FORMATS[tape.weighted(format_weights or FORMAT_WEIGHTS, tag + "fmt")]
    style = T.gen_style(tape, fmt, allow_crlf=not canonical)
    style["allow_mixed_optint"] = bool(allow_mixed_optint)
    if prefer_mixed_optint:
        style["prefer_mixed_optint"] = True
    if canonical:
        noncanon = False
        style.update({"float_repr": True, "no_missing": True, "no_extra": True, "no_list_trailing_comma": True})
    records = T.gen_records(tape, fmt, max_records, noncanon=noncanon, style=style)
    data, lay = T.serialize(fmt, records, style)
    gz = bool(allow_gzip and tape.boolean(tag + "gzip", 1, 3))
    cuts = []
    if gz:
        ncuts = tape.weighted([(3, 0), (2, 1), (1, 2)], tag + "gz.ncuts")
        cuts = sorted(set(tape.draw(max(len(data), 1), tag + "gz.cut") for _ in range(ncuts)))
    lazy = tape.choice(list(lazy_choices), tag + "lazy")
    route = tape.weighted([(3, "path"), (1, "handle")], tag + "route")
    return {"format": fmt.name, "style": style, "n_records": len(records), "size": len(data),
            "data": core.esc(data), "gzip": gz, "gz_cuts": cuts, "lazy": lazy, "route": route,
            "path": f"/sim/{tag}f{fmt.suffix}{'.gz' if gz else ''}",
            "header_len": lay["header_len"],
            "spans": [[r["start"], r["end"], r["first_line"], r["n_lines"]] for r in lay["records"]],
            "fspans": [{k: [v[0], len(v[1])] for k, v in r["fields"].items()} for r in lay["records"]],
            "records": records}


class File:
    """materialised file scenario"""

    def __init__(self, d):
        self.d = d
        self.fmt = T.FORMATS[d["format"]]
        self.style = d["style"]
        self.data = core.unesc(d["data"])
        self.records = d["records"]
        self.gzip = d["gzip"]
        if self.gzip:
            self.stored, self.members = iosim.gzip_members(self.data, d["gz_cuts"])
        else:
            self.stored, self.members = self.data, 0
        self.spec = iosim.ReaderSpec(self.fmt, d["path"], self.gzip, d["lazy"], d["route"])
        self.header_len = d["header_len"]
        self.spans = d["spans"]
        self.fspans = d.get("fspans") or []
        self.body = self.data[self.header_len:]
        self.size = len(self.data)
        # largest entry in bytes (+ terminator slack); interior comment lines in front of a record count as part of it: a
        # chunk that holds nothing but comment lines holds no entry ("a chunk size too small to hold one entry may raise")
        prev_ends = [self.header_len] + [s[1] for s in self.spans[:-1]]
        self.big = max((s[1] - pe for s, pe in zip(self.spans, prev_ends)), default=0) + 2

    def brief(self):
        d = self.d
        return {k: d[k] for k in ("format", "style", "n_records", "size", "data", "gzip", "gz_cuts", "lazy", "route", "path")}


def relation(k, size, big):
    r1 = "k<entry" if k < big else ("k<2entry" if k < 2 * big else ("k<size" if k < size else ("k==size" if k == size else "k>size")))
    div = "div" if size % k == 0 else "nodiv"
    return r1, div


def check_read(ctx, f, cr, k_eff, ref_rows, sched, fault=None):
    """judge one finished ChunkedRead against the reference"""
    ctx.evals += 1
    nch = len(cr.chunk_sizes)
    r1, div = relation(k_eff, f.size, f.big)
    ctx.state(f.fmt.name, f.style["crlf"], f.style["final_newline"], f.gzip, f.spec.lazy,
              f.spec.route, sched, r1, div, min(nch, 4), fault)
    if nch >= 2:
        ctx.probe("multi_chunk")
    if any(n == 1 for n in cr.chunk_sizes):
        ctx.probe("chunk_with_one_entry")
    if f.size % k_eff == 0:
        ctx.probe("size_multiple_of_k")
    if not f.style["final_newline"]:
        ctx.probe("tail_without_newline")
    if f.style["crlf"]:
        ctx.probe("crlf")
    if f.gzip and f.members > 1:
        ctx.probe("gzip_multi_member")
    detail = {"file": f.brief(), "schedule": sched, "k": k_eff, "chunks": cr.chunk_sizes[:20]}
    if cr.error is not None:
        if fault == "eio":
            return  # the injected error surfaced (or something else raised): allowed under eio
        if cr.error.type == "NoProgress":
            raise Violation("progress", "no_end_of_stream", detail)
        if k_eff < 2 * f.big + 2:
            ctx.probe("raise_small_k_accepted")
            return
        detail["error"] = repr(cr.error)
        raise Violation("chunked_eq_whole", "raises", detail)
    diff = iosim.compare_rows(ref_rows, cr.rows)
    if diff is not None:
        kind, d = diff
        detail.update(d)
        raise Violation("chunked_eq_whole", kind, detail)


def check_conservation(f, k):
    if k < f.big:
        return
    msg = iosim.raw_conservation(f.spec, k, f.body)
    if raised(msg):
        if k >= 2 * f.big + 2:
            raise Violation("byte_conservation", "raises", {"file": f.brief(), "k": k, "error": repr(msg)})
    elif msg is not None:
        msg.update({"file": f.brief(), "k": k})
        raise Violation("byte_conservation", "bytes", msg)


# ---------------------------------------------------------------------------------------------

def generate(ctx):
    tape = ctx.tape
    max_records = 12 if ctx.tier == "thorough" else 6
    fd = gen_file(ctx, "", max_records)
    size = fd["size"]
    sched = tape.weighted(SCHEDS, "sched")
    k = 1 + tape.draw(size + 2, "k")
    nvar = 1 + tape.draw(4, "nvar")
    ks_var = [1 + tape.draw(size + 2, "kvar") for _ in range(nvar)]
    stream_api = tape.boolean("stream_api")
    deferred = tape.boolean("deferred", 1, 3)
    sc = {"file": fd, "schedule": sched, "k": k, "ks_varying": ks_var, "stream_api": stream_api, "deferred": deferred,
          "file_b": None, "k_b": None, "eio_nth": 0, "interleaving": []}
    if sched == "capped":
        # max_chunk_size = mult * k + add for every k of the sweep: the cap is reached exactly / just missed
        sc["cap_mult"] = 1 + tape.draw(3, "cap.mult")
        sc["cap_add"] = tape.weighted([(3, 0), (2, 1), (1, 2), (1, 7), (1, 40)], "cap.add")
    if sched not in ("sweep", "capped"):
        if tape.boolean("interleave", 1, 5):
            sc["file_b"] = gen_file(ctx, "b.", max_records)
            sc["k_b"] = 1 + tape.draw(sc["file_b"]["size"] + 2, "b.k")
            sc["interleaving"] = [tape.draw(2, "sched.actor") for _ in range(48)]
        if tape.boolean("eio", 1, 6):
            sc["eio_nth"] = 1 + tape.draw(5, "eio.nth")
    return sc


def execute(ctx, sc):
    f = File(sc["file"])
    sched = sc["schedule"]
    fs = simfs.SimFS(event_budget=300000 if sched in ("sweep", "capped") else 20000)
    fs.put(f.spec.path, f.stored)
    g = File(sc["file_b"]) if sc.get("file_b") else None
    if g is not None:
        fs.put(g.spec.path, g.stored)
    with simfs.Mount(fs), core.quiet():
        ref = iosim.read_whole(f.spec)
        if raised(ref):
            raise Inconclusive("reference read() raises: " + ref.type)
        if sched == "sweep":
            # deterministic inner loop: every k from 1 to size + 2; a failure is re-expressed as schedule=fixed,k
            for k in range(1, f.size + 3):
                cr = iosim.ChunkedRead(f.spec, k, stream_api=(k % 2 == 0), deferred=(k % 3 == 0)).run_to_end()
                ctx.steps += len(cr.chunk_sizes) + 1
                if k % 3 == 0 and len(cr.chunk_sizes) >= 2:
                    ctx.probe("chunks_kept_until_the_end")
                try:
                    check_read(ctx, f, cr, k, ref, "sweep")
                    check_conservation(f, k)
                except Violation as v:
                    v.rewrite = {"sched": _weighted_first_value(SCHEDS, "fixed"), "k": k - 1,
                                 "stream_api": 1 if k % 2 == 0 else 0, "deferred": 1 if k % 3 == 0 else 0}
                    raise
        elif sched == "capped":
            for k in range(1, f.size + 3):
                cap = sc["cap_mult"] * k + sc["cap_add"]
                cr = iosim.ChunkedRead(f.spec, k, stream_api=(k % 2 == 0), cap=cap).run_to_end()
                ctx.steps += len(cr.chunk_sizes) + 1
                if cr.error is not None and cr.error.type != "NoProgress":
                    # max_chunk_size is a limit the caller sets and the library documents "raise Exception" for it; the
                    # property judges reads that complete (the end-of-file terminator the reader appends counts against
                    # the cap too, so even a cap of the file size can raise): loud, not judged
                    ctx.probe("raise_under_cap(not judged)")
                    continue
                check_read(ctx, f, cr, k, ref, "capped")
        else:
            k_eff = sc["k"]
            if sched == "fixed":
                ks, use_default, stream_api = sc["k"], False, sc["stream_api"]
            elif sched == "varying":
                ks, use_default, stream_api = sc["ks_varying"], False, False
                k_eff = min(ks)
            elif sched == "default_iter":
                ks, use_default, stream_api = sc["k"], True, False
            else:
                ks, use_default, stream_api = sc["k"], True, True
            if sc["eio_nth"]:
                fs.plant_eio(f.spec.path, "read", sc["eio_nth"])
            with core.chunk_knob(k_eff if use_default else None):
                actors = [iosim.ChunkedRead(f.spec, ks, use_default=use_default, stream_api=stream_api,
                                            deferred=bool(sc.get("deferred")))]
                refs, files = [ref], [f]
                if g is not None:
                    refb = iosim.read_whole(g.spec)
                    if not raised(refb):
                        actors.append(iosim.ChunkedRead(g.spec, sc["k_b"]))
                        refs.append(refb)
                        files.append(g)
                live = list(range(len(actors)))
                order = []
                inter = sc.get("interleaving") or []
                while live and ctx.steps < 3000:
                    if len(live) > 1:
                        pick = inter[len(order)] if len(order) < len(inter) else 0
                        a = live[pick % len(live)]
                    else:
                        a = live[0]
                    order.append(a)
                    ctx.steps += 1
                    if not actors[a].step():
                        live.remove(a)
                if len(actors) > 1:
                    ctx.probe("interleaved_readers")
            ctx.trace["order"] = order[:80]
            for fname, n in fs.fault_fired.items():
                ctx.fault(fname, n)
            fired = bool(fs.fault_fired)
            fs.faults.clear()   # a planted fault that did not fire must not leak into the follow-up reads
            check_read(ctx, f, actors[0], k_eff, refs[0], sched, fault="eio" if fired else None)
            if len(actors) > 1:
                check_read(ctx, files[1], actors[1], sc["k_b"], refs[1], "fixed")
            if not fired and sched == "fixed":
                check_conservation(f, k_eff)
    ctx.io_events += fs.seq
    ctx.note("C01", f.fmt.name, sched, f.size, fs.seq, core.digest(fs.log))
