"""C02 — parsed columns mean what the file format says the text means  (iosim, value oracle)

The generator's record list is the store model, the file on SimFS the store, each delivered chunk a `get`:
every parsed column of the whole read and of every chunk the schedule cuts is compared with the value the
format assigns to the text.  What simulation adds over plain generation: the vectorised parsers right-align
digits to the widest field *of the batch*, and the batch is whatever the chunk schedule cut.
"""
from .. import core, simfs
from ..core import Violation, Inconclusive, raised
from ..engines import iosim
from ..models import text as T
from . import C01 as _c01

ID = "C02"
LEVEL = "exploration"
ENGINE = "iosim"
RULE = ("one evaluation = one batch (whole file or one chunk-schedule's concatenated chunks) of a generated well-formed "
        "file parsed by bionumpy and compared column by column with the reference model's values (int()/float()/verbatim "
        "text of the generated fields). Non-trivial = file with >= 2 records; distinct = distinct tuples (format, CRLF, final "
        "newline, storage, lazy flag, route, batch kind, number of chunks bucket, widest/narrowest numeric field width "
        "bucket, presence of '.'/signed/scientific spellings, extra columns)")
BUDGET = {"quick": (6000, 40), "thorough": (90000, 900)}

FORMAT_WEIGHTS = [(3, "bed3"), (3, "bed6"), (2, "bed12"), (3, "bdg"), (3, "narrowpeak"), (1, "sizes"), (3, "vcf"), (3, "vcfinfo"), (2, "vcfgt"), (2, "wig"), (2, "gff3"), (2, "gfa"), (2, "pairs"),
                  (3, "sam"), (2, "gtf"), (2, "fasta2"), (3, "fastaw"), (3, "fastq")]


def features(f):
    """abstract features of the file for the distinct-state measure"""
    widths = []
    flags = set()
    for r in f.records:
        for (fname, kind) in f.fmt.fields:
            t = r["texts"][fname]
            if kind in ("int", "sint", "pos1", "optint", "float"):
                widths.append(len(t))
                if t == ".":
                    flags.add("dot")
                if t[:1] in "+-":
                    flags.add("signed")
                if "e" in t:
                    flags.add("sci")
                if len(t) > 1 and t[0] == "0" and kind != "float":
                    flags.add("lead0")
    if f.records and f.records[0]["extra_cols"]:
        flags.add("extra")
    wb = (min(widths + [0]), min(max(widths + [0]), 10))
    return wb, ",".join(sorted(flags))


MODES = [(3, "ks"), (1, "whole"), (2, "sweep"), (1, "raw_buffer")]


def generate(ctx):
    tape = ctx.tape
    max_records = 14 if ctx.tier == "thorough" else 7
    fd = _c01.gen_file(ctx, "", max_records, format_weights=FORMAT_WEIGHTS, allow_mixed_optint=True)
    mode = tape.weighted(MODES, "mode")
    nks = 1 + tape.draw(3, "nks")
    ks = [1 + tape.draw(fd["size"] + 2, "k") for _ in range(nks)]
    sc = {"file": fd, "mode": mode, "ks": ks, "prime": None}
    # another caller in the same process reads the same bytes first through a sibling buffer type (the VCF buffer types
    # share class-level caches keyed by the header text): process-global state is a scheduler decision
    if fd["format"] in ("vcf", "vcfgt") and tape.boolean("prime", 1, 2):
        sc["prime"] = {"buffer": "bionumpy.io.vcf_buffers.VCFBuffer2" if fd["format"] == "vcf" else "bionumpy.io.vcf_buffers.VCFBuffer",
                       "lazy": tape.choice([False, True], "prime.lazy")}
    if fd["format"] == "vcfinfo" and tape.boolean("prime.redeclared", 1, 2):
        # another file with the same INFO ids but other Number / Type declarations is read first in this interpreter
        sc["prime"] = {"redeclared": tape.choice(["all_string", "scalar_int", "list_float"], "prime.how"),
                       "lazy": tape.choice([False, True], "prime.lazy")}
    return sc


REDECLARE = {"all_string": ("1", "String"), "scalar_int": ("1", "Integer"), "list_float": (".", "Float")}


def redeclared_file(f, how):
    """the same INFO ids with other declarations; one record whose values fit every one of them"""
    num, typ = REDECLARE[how]
    lines = ["##fileformat=VCFv4.2"]
    for k, (n0, t0) in T.INFO_KEYS.items():
        if t0 == "Flag":
            lines.append(f'##INFO=<ID={k},Number=0,Type=Flag,Description="{k.lower()}">')
        else:
            lines.append(f'##INFO=<ID={k},Number={num},Type={typ},Description="{k.lower()}">')
    lines.append("#CHROM\tPOS\tID\tREF\tALT\tQUAL\tFILTER\tINFO")
    info = ";".join(f"{k}=7" for k, (n0, t0) in T.INFO_KEYS.items() if t0 != "Flag")
    lines.append(f"chr1\t5\tx\tA\tC\t.\t.\t{info}")
    return ("\n".join(lines) + "\n").encode()


def execute(ctx, sc):
    f = _c01.File(sc["file"])
    fmt = f.fmt
    mode = sc["mode"]
    fs = simfs.SimFS(event_budget=300000)
    fs.put(f.spec.path, f.stored)
    wb, flags = features(f)
    if len(f.records) >= 2:
        ctx.probe("multi_record")
    for fl in flags.split(","):
        if fl:
            ctx.probe("spelling_" + fl)
    if f.style["crlf"]:
        ctx.probe("crlf")

    def judge(rows, where, nchunks):
        ctx.evals += 1
        ctx.state(fmt.name, f.style["crlf"], f.style["final_newline"], f.gzip, f.spec.lazy,
                  f.spec.route, where.split(":")[0], min(nchunks, 3), wb, flags)
        try:
            iosim.compare_with_model(fmt, f.records, rows, where)
        except Violation as v:
            v.detail["file"] = f.brief()
            v.detail["prime"] = sc.get("prime")
            raise

    with simfs.Mount(fs), core.quiet():
        if sc.get("prime") and sc["prime"].get("redeclared"):
            pr = sc["prime"]
            b = core.bnp()
            fs.put("/sim/prime.vcf", redeclared_file(f, pr["redeclared"]))

            def prime_read2():
                t = b.open("/sim/prime.vcf", lazy=pr["lazy"]).read()
                return core.plain(t.info)
            core.call(prime_read2)      # its own outcome is not judged here
            ctx.probe("primed_by_redeclared_info_header")
        elif sc.get("prime"):
            pr = sc["prime"]
            b = core.bnp()

            def prime_read():
                t = b.open(f.spec.path, buffer_type=iosim.resolve(pr["buffer"]), lazy=pr["lazy"]).read()
                return core.plain(t.chromosome)
            core.call(prime_read)       # its own outcome is not judged here
            ctx.probe("primed_by_sibling_buffer_type")
        ref = iosim.read_whole(f.spec)
        if raised(ref):
            raise Violation("value", fmt.name + ".whole_read_raises", {"file": f.brief(), "error": repr(ref), "prime": sc.get("prime")})
        judge(ref, "whole", 1)
        ctx.steps += 1
        if mode == "raw_buffer":
            # buffer_type.from_raw_buffer(bytes).get_data() on the body (observation point 2 of the property)
            body = f.body
            if body and fmt.layout != "fastaw":
                def g():
                    import numpy as np
                    bt = iosim.resolve(fmt.bufpath)
                    raw = body if body.endswith(b"\n") else body + b"\n"
                    hd = f.data[:f.header_len].decode("latin1")
                    bt2 = bt.modify_class_with_header_data(hd) if hd else bt
                    buf = bt2.from_raw_buffer(np.frombuffer(raw, dtype=np.uint8), header_data=hd or None)
                    return buf.get_data()
                t = core.call(g)
                if raised(t):
                    raise Violation("value", fmt.name + ".raw_buffer_raises", {"file": f.brief(), "error": repr(t)})
                rows = iosim.table_to_rows(t, fmt)
                if raised(rows):
                    raise Violation("value", fmt.name + ".raw_buffer_raises", {"file": f.brief(), "error": repr(rows)})
                judge(rows, "raw_buffer", 1)
        klist = []
        if mode == "ks":
            klist = sc["ks"]
        elif mode == "sweep":
            klist = list(range(1, f.size + 3))
        for k in klist:
            cr = iosim.ChunkedRead(f.spec, k).run_to_end()
            ctx.steps += len(cr.chunk_sizes) + 1
            if cr.error is not None:
                if k < 2 * f.big + 2:
                    ctx.probe("raise_small_k_accepted")
                    continue
                v = Violation("value", fmt.name + ".chunked_read_raises", {"file": f.brief(), "k": k, "error": repr(cr.error)})
            else:
                try:
                    judge(cr.rows, f"chunked:k={k}", len(cr.chunk_sizes))
                    continue
                except Violation as e:
                    v = e
            if mode == "sweep":
                v.rewrite = {"mode": 0, "nks": 0, "k": k - 1}
            raise v
    ctx.io_events += fs.seq
    ctx.note("C02", fmt.name, mode, f.size, fs.seq, core.digest(fs.log))
