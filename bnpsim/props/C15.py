"""C15 — malformed input is reported, with the right line number, not mis-parsed  (iosim, fault enumeration)

Fault = corruption of stored bytes (one violation of one class at one record position; for the column count also a pair
of lines whose deviations cancel) or a torn tail.
The model's strict validator judges the corrupted file: still well-formed => benign (not judged here);
malformed => every read that touches the affected data must raise, and a FormatException's line number
must point into the offending record (first line of the record .. the offending line), identically for
every chunk size and for lazy and eager reading.
"""
from .. import core, simfs
from ..core import Violation, Inconclusive, raised
from ..engines import iosim
from ..models import text as T
from . import C01 as _c01

ID = "C15"
LEVEL = "fault_enumeration"
ENGINE = "iosim"
RULE = ("one evaluation = one read (whole, or chunked with one k) of a generated file with exactly one injected format "
        "violation / torn tail; within a run the violation class x record position is drawn, then all k from the largest "
        "entry to size+2 (sweep) or sampled k are enumerated x lazy/eager. Non-trivial = the strict validator confirms the "
        "file is malformed; distinct = distinct tuples (format, violation class, position class first/middle/last, CRLF, "
        "final newline, storage, lazy, whole/chunked, bad record in first chunk or later, outcome kind)")
BUDGET = {"quick": (6000, 40), "thorough": (90000, 900)}

FORMAT_WEIGHTS = [(3, "bed3"), (3, "bed6"), (2, "bdg"), (2, "narrowpeak"), (2, "vcf"), (2, "sam"), (2, "gtf"),
                  (3, "fasta2"), (2, "fastaw"), (4, "fastq"), (2, "bed12"), (3, "vcfinfo")]

NUMERIC_KINDS = ("int", "sint", "pos1", "float", "optint", "listint")


def applicable_classes(fmt):
    out = []
    if fmt.layout in ("fasta2", "fastq", "fastaw"):
        out.append("marker")
    if fmt.layout == "fastq":
        out.append("plus")
        out.append("plus_removed")      # the '+' line is missing altogether (the replaced symbol is class "plus")
    if fmt.layout == "tsv":
        out += ["nonnumeric", "columns_fewer"]
        if fmt.fields[-1][1] != "rest":   # SAM: a variable number of optional columns is legal
            out.append("columns_more")
        if any(k == "strand" for _, k in fmt.fields):
            out.append("strand")
        if fmt.fields[-1][1] != "rest":
            out.append("columns_two")
        if fmt.name == "vcfinfo":
            out.append("info_nonnumeric")    # a non-numeric character inside a typed Integer / Float INFO value   # one line with a column more and another with a column fewer (the totals cancel)
    out.append("torn")
    return out


def generate(ctx):
    tape = ctx.tape
    max_records = 10 if ctx.tier == "thorough" else 6
    fd = _c01.gen_file(ctx, "", max_records, format_weights=FORMAT_WEIGHTS, lazy_choices=(None,), allow_mixed_optint=True,
                       prefer_mixed_optint=True)
    fmt = T.FORMATS[fd["format"]]
    data = core.unesc(fd["data"])
    classes = applicable_classes(fmt)
    klass = classes[tape.draw(len(classes), "class")]
    n = fd["n_records"]
    # position: biased to first / last / any
    pos_kind = tape.weighted([(2, "any"), (1, "first"), (2, "last")], "pos_kind")
    r = 0 if pos_kind == "first" else (n - 1 if pos_kind == "last" else tape.draw(n, "record"))
    if klass == "marker" and fmt.layout == "fastaw":
        r = 0
    start, end, first_line, n_lines = fd["spans"][r]
    fsp = fd["fspans"][r]
    bad = bytearray(data)
    info = {"class": klass, "record": r}
    fl = None
    if klass == "marker":
        if tape.boolean("marker.remove"):
            del bad[start]
            info["how"] = "removed"
        else:
            bad[start] = ord("X")
            info["how"] = "replaced"
    elif klass == "plus":
        # third line of the record
        nl = data.index(b"\n", data.index(b"\n", start) + 1) + 1
        bad[nl] = ord("-")
        info["offset"] = nl
    elif klass == "info_nonnumeric":
        import re as _re
        fs_, fl = fsp["info"]
        text = data[fs_:fs_ + fl].decode("latin1")
        # digits of Integer / Float items (key=value[,value]) of this record's INFO column
        cands = []
        for m in _re.finditer(r"(?:^|;)([A-Z]+)=([^;]*)", text):
            if m.group(1) in T.INFO_KEYS and T.INFO_KEYS[m.group(1)][1] in ("Integer", "Float"):
                cands += [m.start(2) + j for j, ch in enumerate(m.group(2)) if ch.isdigit()]
        if not cands:
            klass = info["class"] = "nonnumeric"
            pos_start = fsp["position"][0]
            bad[pos_start] = ord("x")
            info.update({"field": "position", "offset": pos_start, "char": "x"})
            fl = None       # the corruption is done: the character variant below is not applied on top
        else:
            off = fs_ + cands[tape.draw(len(cands), "info.digit")]
            bad[off] = ord("x")
            info.update({"field": "info", "offset": off, "char": "x"})
    elif klass == "plus_removed":
        if r == n - 1 and ctx.excl:
            # KF-C15-incomplete-last-record (open): an incomplete last record is left out silently; in 90 % of the runs the
            # '+' line of an earlier record is removed instead (of the same record when it is the only one: class "plus")
            if n >= 2:
                r = tape.draw(n - 1, "record_not_last")
                start, end, first_line, n_lines = fd["spans"][r]
                info["record"] = r
            else:
                klass = info["class"] = "plus"
        nl = data.index(b"\n", data.index(b"\n", start) + 1) + 1      # first byte of the third line
        if klass == "plus":
            bad[nl] = ord("-")
        else:
            nl2 = data.index(b"\n", nl) + 1
            del bad[nl:nl2]
        info["offset"] = nl
    elif klass == "nonnumeric":
        cands = [f for f, k in fmt.fields if k in NUMERIC_KINDS and f in fsp and data[fsp[f][0]:fsp[f][0] + fsp[f][1]] != b"."]
        # optional columns (score) are drawn three times as often: their parser works on the sub-selection of present
        # rows, so its error offsets go through one more mapping
        kinds = dict(fmt.fields)
        cands = [c for c in cands for _ in range(3 if kinds[c] == "optint" else 1)]
        fname = cands[tape.draw(len(cands), "field")]
        fs_, fl = fsp[fname]
        whole = tape.weighted([(5, None), (1, "-"), (1, "+"), (1, "."), (1, "-."), (1, "")], "whole_field")
        if whole is not None and not (whole in (".", "-.") and dict(fmt.fields)[fname] != "float") \
                and not (whole in (".", "") and dict(fmt.fields)[fname] == "optint") \
                and not (whole == "" and dict(fmt.fields)[fname] == "listint"):
            # ('.' / empty in an optional column is its missing marker; an empty list column is a list of no numbers)
            # the whole field is a sign / a decimal point without any digit, or empty
            bad[fs_:fs_ + fl] = whole.encode()
            info.update({"field": fname, "offset": fs_, "whole_field": whole})
            fl = None
    if klass == "nonnumeric" and fl is not None:
        off = fs_ + tape.draw(fl, "digit")
        # the foreign character: a plain letter, a letter that is "digit + 32" in ASCII ('Q' = '1' + 32), or for a
        # decimal number a second decimal point
        kind = dict(fmt.fields)[fname]
        # ... or punctuation that sorts below '0' in ASCII like the signs do (space, '*', '#', ',')
        chars = ["x", "Q", "P", " ", "*", "#", ","] + (["."] if (kind == "float" and b"." in data[fs_:fs_ + fl] and b"e" not in data[fs_:fs_ + fl]) else [])
        ch = chars[tape.draw(len(chars), "badchar")]
        if ch == "." and data[off:off + 1] == b".":
            ch = "x"
        if ch == "," and kind == "listint":
            ch = "#"      # a comma in a list column makes another list (possibly with an empty element), not a foreign character
        bad[off] = ord(ch)
        info.update({"field": fname, "offset": off, "char": ch})
    elif klass == "strand":
        fname = [f for f, k in fmt.fields if k == "strand"][0]
        ch = ["x", "K", "N", "M"][tape.draw(4, "badchar")]     # 'K' = '+' + 32, 'M' = '-' + 32, 'N' = '.' + 32
        how = tape.weighted([(2, "replace"), (1, "append"), (1, "prepend")], "strand.how")
        at = fsp[fname][0]
        if how == "replace":
            bad[at] = ord(ch)
        elif how == "append":       # '+x': a valid first character followed by a foreign one
            bad[at + 1:at + 1] = ch.encode()
        else:
            bad[at:at] = ch.encode()
        info.update({"field": fname, "char": ch, "how": how})
    elif klass == "columns_fewer":
        tabs = [i for i in range(start, end) if data[i:i + 1] == b"\t"]
        t = tabs[tape.draw(len(tabs), "tab")]
        how = tape.weighted([(1, "merge"), (1, "drop_field")], "how")
        if how == "merge":
            bad[t] = ord("_")
        else:
            # drop the separator together with the field that follows it
            content_end = end
            if data[content_end - 1:content_end] == b"\n":
                content_end -= 1
            if data[content_end - 1:content_end] == b"\r":
                content_end -= 1
            nxt = min([x for x in tabs if x > t] + [content_end])
            del bad[t:nxt]
        info.update({"tab": t, "how": how})
    elif klass == "columns_more":
        # an extra column: a separator placed inside / after a field of this line
        fname = fmt.fields[tape.draw(min(len(fmt.fields), len(fsp)), "field")][0]
        if fname not in fsp:
            fname = fmt.fields[0][0]
        fs_, fl = fsp[fname]
        bad[fs_ + fl:fs_ + fl] = b"\tq"
        info["field"] = fname
    elif klass == "columns_two":
        if n < 2:
            klass = info["class"] = "columns_more"
            fs_, fl = fsp[fmt.fields[0][0]]
            bad[fs_ + fl:fs_ + fl] = b"\tq"
            info["field"] = fmt.fields[0][0]
        else:
            r2 = (r + 1 + tape.draw(n - 1, "record2")) % n
            more_first = tape.boolean("more_in_earlier")
            ra, rb = min(r, r2), max(r, r2)
            r_more, r_fewer = (ra, rb) if more_first else (rb, ra)
            s2, e2 = fd["spans"][r_fewer][0], fd["spans"][r_fewer][1]
            tabs = [i for i in range(s2, e2) if data[i:i + 1] == b"\t"]
            t = tabs[tape.draw(len(tabs), "tab")]
            bad[t] = ord("_")                      # same length: later offsets stay valid
            fname = fmt.fields[tape.draw(len(fmt.fields), "field")][0]
            fsp2 = fd["fspans"][r_more]
            if fname not in fsp2:
                fname = fmt.fields[0][0]
            fs_, fl = fsp2[fname]
            bad[fs_ + fl:fs_ + fl] = b"\tq"
            info.update({"record": ra, "record_more": r_more, "record_fewer": r_fewer, "tab": t, "field": fname})
    elif klass == "torn":
        # truncate inside the last two records
        lo = fd["spans"][max(0, n - 2)][0]
        cut = lo + 1 + tape.draw(max(len(data) - lo - 1, 1), "cut")
        cut = min(cut, len(data) - 1)
        del bad[cut:]
        info["cut"] = cut
    sched = tape.weighted([(3, "sweep"), (2, "ks")], "sched")
    nks = 1 + tape.draw(3, "nks")
    ks = [1 + tape.draw(len(bad) + 2, "k") for _ in range(nks)]
    return {"file": fd, "fault": info, "bad_data": core.esc(bytes(bad)), "schedule": sched, "ks": ks}


def _line_of_record(spans_lines, line):
    """first line of the record containing `line` given [(first_line, n_lines)] of the ORIGINAL layout"""
    for fl, nl in spans_lines:
        if fl <= line < fl + nl:
            return fl
    return line


def execute(ctx, sc):
    fd = dict(sc["file"])
    bad = core.unesc(sc["bad_data"])
    klass = sc["fault"]["class"]
    fd["data"] = sc["bad_data"]
    fd["size"] = len(bad)
    if fd["gzip"]:
        fd["gz_cuts"] = [c for c in fd["gz_cuts"] if c < len(bad)]
    f = _c01.File(fd)
    fmt = f.fmt
    ctx.fault("corrupt_" + klass)
    res = T.validate(fmt, bad[f.header_len:], f.style, lenient_extra=True)
    if res[0] == "ok":
        ctx.probe("benign_fault_still_wellformed")
        ctx.state(fmt.name, klass, "benign")
        return
    _, bad_line, reason = res
    # judge only outcomes that fall under the violation classes the property lists
    want = {"marker": ("marker",), "plus": ("plus",), "plus_removed": ("plus", "columns", "marker"), "columns_fewer": ("columns",), "columns_more": ("columns",), "columns_two": ("columns",), "info_nonnumeric": ("field:info",),
            "torn": ("columns",), "nonnumeric": ("field:" + str(sc["fault"].get("field")),),
            "strand": ("field:" + str(sc["fault"].get("field")),)}[klass]
    if reason not in want:
        ctx.probe("fault_outcome_outside_listed_classes")
        ctx.state(fmt.name, klass, "unlisted:" + reason.split(":")[0])
        return
    lines_per = {"tsv": 1, "fasta2": 2, "fastq": 4}.get(fmt.layout)
    if lines_per:
        rec_first = (bad_line // lines_per) * lines_per
        bad_record = bad_line // lines_per
    else:  # wrapped fasta: only the first record's marker is corrupted (line 0)
        rec_first = _line_of_record([(s[2], s[3]) for s in f.spans], bad_line)
        bad_record = sum(1 for s in f.spans if s[2] + s[3] <= bad_line)
    accepted = set(range(rec_first, bad_line + 1))
    counts = None
    if reason == "columns":
        # which line is "the offending one" is ambiguous when the first line is the odd one: accept the model's line
        # and the first line whose column count differs from the first line's
        counts = T.column_counts(bad[f.header_len:], f.style)
        diff = [i for i, c in enumerate(counts) if c != counts[0]]
        if diff:
            accepted.add(diff[0])
            bad_record = min(bad_record, diff[0]) if bad_record == 0 else bad_record
    n = len(f.spans)
    pos_class = "first" if bad_record == 0 else ("last" if bad_record >= n - 1 else "middle")
    ctx.probe("malformed_" + klass)
    fs = simfs.SimFS(event_budget=300000)
    fs.put(f.spec.path, f.stored)
    lazies = [True, False] if fmt.lazy_capable else [False]
    observed_lines = {}
    detail0 = {"file": f.brief(), "fault": sc["fault"], "model_bad_line": bad_line, "accepted_lines": sorted(accepted)}
    big = f.big
    if sc["schedule"] == "sweep":
        klist = list(range(max(1, big), f.size + 3))
    else:
        klist = [k for k in sc["ks"]]

    def judge_error(err, where, lazy, k):
        ln = getattr(err.exc, "line_number", None)
        is_fe = err.type == "FormatException"
        outcome = "FormatException" if is_fe else "other_exception"
        if is_fe and isinstance(ln, (int,)) or (is_fe and hasattr(ln, "__index__")):
            ln = int(ln)
            # column-count violations: "the first line that differs from line 0" and "line 0 itself" denote the same
            # violation when line 0 is the odd one; both are accepted and they count as one value for invariance
            observed_lines[(where, lazy, k)] = min(accepted) if (counts is not None and ln in accepted) else ln
            if ln not in accepted:
                d = dict(detail0)
                d.update({"where": where, "lazy": lazy, "k": k, "reported_line": ln, "error": repr(err)})
                raise Violation("line_number", f"{fmt.name}.{klass}", d)
            outcome = "FormatException_line"
        return outcome

    with simfs.Mount(fs), core.quiet():
        for lazy in lazies:
            spec = iosim.ReaderSpec(fmt, f.spec.path, f.gzip, lazy, f.spec.route)
            # whole read
            ctx.evals += 1
            ctx.steps += 1
            rows = iosim.read_whole(spec)
            if not raised(rows):
                d = dict(detail0)
                d.update({"where": "whole", "lazy": lazy, "n_rows": len(rows), "rows": rows[:4]})
                raise Violation("must_raise", f"{fmt.name}.{klass}", d)
            oc = judge_error(rows, "whole", lazy, None)
            ctx.state(fmt.name, klass, pos_class, f.style["crlf"], f.style["final_newline"], f.gzip, lazy, "whole", oc)
            for k in klist:
                ctx.evals += 1
                cr = iosim.ChunkedRead(spec, k).run_to_end()
                ctx.steps += len(cr.chunk_sizes) + 1
                try:
                    if cr.error is None:
                        d = dict(detail0)
                        d.update({"where": "chunked", "lazy": lazy, "k": k, "n_rows": len(cr.rows), "chunks": cr.chunk_sizes[:12]})
                        if counts is not None:
                            # did every delivered chunk look regular on its own (the irregular line sits alone or with
                            # lines of its own width)?  -> known finding KF-C15-columns-across-chunks
                            pos, alone = 0, True
                            for nrows in cr.chunk_sizes:
                                if len(set(counts[pos:pos + nrows])) > 1:
                                    alone = False
                                pos += nrows
                            d["cross_chunk_only"] = alone
                            if alone and ctx.excl:
                                ctx.probe("known_columns_across_chunks_skipped")
                                continue
                        raise Violation("must_raise", f"{fmt.name}.{klass}", d)
                    if len(cr.rows) > bad_record:
                        d = dict(detail0)
                        d.update({"where": "chunked", "lazy": lazy, "k": k, "rows_delivered": len(cr.rows),
                                  "bad_record": bad_record, "row_at_bad": cr.rows[bad_record], "error": repr(cr.error)})
                        raise Violation("affected_data_delivered", f"{fmt.name}.{klass}", d)
                    oc = judge_error(cr.error, "chunked", lazy, k)
                except Violation as v:
                    if sc["schedule"] == "sweep":
                        v.rewrite = {"sched": 3, "nks": 0, "k": k - 1}
                    raise
                later = "later_chunk" if len(cr.chunk_sizes) >= 1 else "first_chunk"
                if later == "later_chunk":
                    ctx.probe("bad_record_not_in_first_chunk")
                ctx.state(fmt.name, klass, pos_class, f.style["crlf"], f.style["final_newline"], f.gzip, lazy, "chunked", later, oc)
        vals = set(observed_lines.values())
        if len(vals) > 1:
            d = dict(detail0)
            d["observed"] = {f"{w}/lazy={lz}/k={k}": v for (w, lz, k), v in sorted(observed_lines.items(), key=str)[:40]}
            raise Violation("line_number_invariant", f"{fmt.name}.{klass}", d)
    ctx.io_events += fs.seq
    ctx.note("C15", fmt.name, klass, f.size, fs.seq, core.digest(fs.log))
