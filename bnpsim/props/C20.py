"""C20 — operations do not modify their inputs  (lazysim bracket + API actor)

File-chunk clause (decided): every operation of a history on lazily read chunks is bracketed.  The operands'
observable state (length, every field value, the bytes the chunk would write) BEFORE the operation is obtained
from a fresh replay of the history prefix — so that observing never disturbs what is observed — and compared
with the state AFTER the operation in another fresh replay; applying the operation twice must give equal results.

Registry clause (monitored): an "API actor" calls public functions (number/text conversion, interval arithmetic,
sequence functions, encoding changes) on objects alive in the run (columns of the read chunks and texts built
from them) under the same snapshot bracket.
"""
import numpy as np

from .. import core, simfs
from ..core import Violation, Inconclusive, raised, call, plain
from ..engines import iosim, lazysim as L
from ..models import text as T
from . import C01 as _c01
from . import C04 as _c04

ID = "C20"
LEVEL = "exploration"
ENGINE = "lazysim"
RULE = ("one evaluation = one bracketed operation: operand state (len, all field values, bytes it would write) from a fresh "
        "replay of the history prefix vs the state after the operation, plus twice-applied equality; or one registry call "
        "on live objects under an argument snapshot. Non-trivial = the operation touches a parsed field or a write; "
        "distinct = distinct tuples (format, lazy flag, op kind, field kind touched, previous op kind, registry function)")
BUDGET = {"quick": (2500, 40), "thorough": (40000, 900)}
ASSUMPTIONS = ["the registry clause is a monitor on sampled live objects, not a search over the registry's input space",
               "reference models in bnpsim/models are correct renderings of the format specs",
               "SimFS implements the BufferedReader/Writer contract"]

FORMAT_WEIGHTS = [(2, "bed3"), (3, "bed6"), (3, "bed12"), (3, "narrowpeak"), (3, "bdg"), (3, "vcf"), (2, "vcfinfo"), (3, "sam"),
                  (2, "fastq"), (1, "fasta2"), (3, "vcfgt")]


def generate(ctx):
    tape = ctx.tape
    thorough = ctx.tier == "thorough"
    fd = _c01.gen_file(ctx, "", 6 if thorough else 4, format_weights=FORMAT_WEIGHTS, noncanon=True, allow_gzip=False,
                       lazy_choices=(None, True, False), allow_mixed_optint=True)
    fd["route"] = "path"
    chunked = tape.boolean("chunked", 1, 4)
    k = (1 + tape.draw(fd["size"] + 2, "chunk_k")) if chunked else None
    ops = L.gen_program(ctx, fd, [fd["n_records"]], 7 if thorough else 5, allow_item=False, allow_setctx=True)
    # make sure field access is well represented: prepend some GETs in a drawn order
    fmt = T.FORMATS[fd["format"]]
    pre = []
    for _ in range(tape.draw(3, "pre.n")):
        pre.append({"op": "get", "src": 0, "field": fmt.fields[tape.draw(len(fmt.fields), "pre.field")][0]})
    api = [tape.draw(len(API), "api.f") for _ in range(2 + tape.draw(5, "api.n"))]
    return {"file": fd, "chunk_k": k, "ops": pre + ops, "api": api}


# ---------------------------------------------------------------------------------------------
# API actor: (name, needs, function(bnp, obj) -> result)

def _api():
    def _int_col(table, fmt):
        cols = [f for f, k in fmt.fields if k in ("int", "sint", "pos1")]
        return None if not cols else [int(v) for v in np.asarray(getattr(table, cols[0])).tolist()]

    def ints_text(b, table, fmt):
        v = _int_col(table, fmt)
        if not v:
            return None
        from bionumpy.io.strops import ints_to_strings
        return ints_to_strings(np.asarray(v) - 3)      # negative numbers included

    def _signed_texts(table, fmt):
        v = _int_col(table, fmt)
        if not v:
            return None
        return [("+" if i % 3 == 0 else ("-" if i % 3 == 1 else "")) + str(abs(x)) for i, x in enumerate(v)]

    def ints_text_row_view(b, table, fmt):
        # a row slice of a bigger ragged array: a view that has not been flattened yet
        t = _signed_texts(table, fmt)
        return None if t is None else b.as_encoded_array(["77"] + t)[1:]

    def ints_text_column_view(b, table, fmt):
        # a column slice: every number loses its first (padding) character
        t = _signed_texts(table, fmt)
        return None if t is None else b.as_encoded_array(["x" + x for x in t])[:, 1:]

    def ints_text_split_pieces(b, table, fmt):
        # the pieces strops.split returns
        t = _signed_texts(table, fmt)
        if t is None:
            return None
        from bionumpy.io.strops import split
        return split(b.as_encoded_array(",".join(t)), ",")

    def floats_text_row_view(b, table, fmt):
        t = _signed_texts(table, fmt)
        return None if t is None else b.as_encoded_array(["1.5"] + [x + ".25" for x in t if not x.startswith("+")] + ["-0.5"])[1:]

    def genotype_rows_text(b, table, fmt):
        # in-memory genotype rows as they stand in a VCF line (tab separated, newline at the end)
        n = call(len, table)
        if raised(n) or n == 0:
            return None
        return b.as_encoded_array([["0|1\t1|1\n", "0/0\t./.\n", "1|0\t0|0\n"][i % 3] for i in range(n)])

    class _UserTable:
        """a lazily read table of a user-defined one-column list format (bnp's get_bufferclass_for_datatype), made of two
        concatenated reads so that its text buffer is an ordinary writeable array; rendered as the bytes it writes"""
        def __init__(self, b, values):
            from typing import List
            from bionumpy.bnpdataclass import bnpdataclass
            from bionumpy.io.delimited_buffers import get_bufferclass_for_datatype
            self.b = b
            ns = {"__annotations__": {"sizes": List[int]}}
            self.bt = get_bufferclass_for_datatype(bnpdataclass(type("Blocks", (), ns)), has_header=True)
            text = "sizes\n" + "".join(",".join(str(v + j) for j in range(1 + i % 3)) + "\n" for i, v in enumerate(values))
            import builtins
            with builtins.open("/sim/user_blocks.txt", "wb") as f:
                f.write(text.encode())
            rd = lambda: b.open("/sim/user_blocks.txt", buffer_type=self.bt).read()
            self.table = np.concatenate([rd(), rd()])

        def _bnpsim_render(self):
            t = self.table[np.arange(len(self.table))]
            with self.b.open("/sim/user_blocks_out.txt", "w", buffer_type=self.bt) as w:
                w.write(t)
            import builtins
            with builtins.open("/sim/user_blocks_out.txt", "rb") as f:
                return f.read().decode("latin1")

    def user_list_table(b, table, fmt):
        v = _int_col(table, fmt)
        if not v:
            return None
        return _UserTable(b, [abs(int(x)) % 1000 for x in v])

    def f_user_list_field(b, x):
        return plain(x.table.sizes)

    def bedgraph_gapless_nan(b, table, fmt):
        # a bedGraph table without gaps between its rows, covering the whole chromosome, with a nan among the values
        n = call(len, table)
        if raised(n) or n == 0:
            return None
        import bionumpy.datatypes as dt
        starts = np.arange(n) * 10
        vals = np.array([1.5 + i for i in range(n)], dtype=float)
        vals[n // 2] = np.nan
        return dt.BedGraph(["chr1"] * n, starts, starts + 10, vals)

    def f_rla_from_bedgraph(b, x):
        from bionumpy.arithmetics.intervals import GenomicRunLengthArray
        return np.asarray(GenomicRunLengthArray.from_bedgraph(x, 10 * len(x)))

    def f_geometry_get_track(b, x):
        from bionumpy.genomic_data.geometry import Geometry
        return np.asarray(Geometry({"chr1": 10 * len(x)}).get_track(x).to_dict()["chr1"])

    def f_genome_get_track(b, x):
        return b.Genome.from_dict({"chr1": 10 * len(x)}).get_track(x).get_data()

    def dna_ascii_mixed_case(b, table, fmt):
        # sequences held as plain ASCII text (not an alphabet encoding) with lower-case letters among them
        if "sequence" not in fmt.field_names() or fmt.name == "sam":
            return None
        seqs = [str(x) for x in plain(table.sequence)]
        return b.as_encoded_array(["".join(ch.lower() if (i + j) % 2 else ch for j, ch in enumerate(q)) for i, q in enumerate(seqs)])

    def genotype_rows_matrix(b, table, fmt):
        # the same rows as a C-contiguous 2-D character matrix (not a ragged array): ravel() of it is a view
        n = call(len, table)
        if raised(n) or n == 0:
            return None
        rows = [["0|1\t1|1\n", "0/0\t./.\n", "1|0\t0|0\n"][i % 3] for i in range(n)]
        raw = np.frombuffer("".join(rows).encode("ascii"), dtype=np.uint8).copy().reshape(n, len(rows[0]))
        return b.EncodedArray(raw, b.BaseEncoding)

    def ints_text_plus(b, table, fmt):
        # '+'-signed and unsigned numbers, no negative one in the batch
        v = _int_col(table, fmt)
        if not v:
            return None
        return b.as_encoded_array([("+" if i % 2 == 0 else "") + str(abs(x)) for i, x in enumerate(v)])

    def ints_text_unsigned(b, table, fmt):
        v = _int_col(table, fmt)
        if not v:
            return None
        return b.as_encoded_array([str(abs(x)) for x in v])

    def _float_col(table, fmt):
        cols = [f for f, k in fmt.fields if k == "float"]
        return None if not cols else [float(v) for v in np.asarray(getattr(table, cols[0]), dtype=float).tolist()]

    def floats_text(b, table, fmt):
        v = _float_col(table, fmt)
        if not v:
            return None
        from bionumpy.io.strops import float_to_strings
        return float_to_strings(np.asarray(v, dtype=float))

    def floats_text_positive(b, table, fmt):
        # decimal points but no minus sign in the batch
        v = _float_col(table, fmt)
        if not v:
            return None
        return b.as_encoded_array([repr(abs(x) + 0.5) for x in v])

    def floats_text_scientific(b, table, fmt):
        v = _float_col(table, fmt)
        if not v:
            return None
        return b.as_encoded_array([("%.2e" % (x + 0.25)).replace("e+0", "e").replace("e-0", "e-").replace("e+", "e") for x in v])

    def intervals(b, table, fmt):
        if not all(x in fmt.field_names() for x in ("chromosome", "start", "stop")):
            return None
        import bionumpy.datatypes as dt
        s = np.asarray(table.start) % 1000
        e = s + 1 + np.asarray(table.stop) % 50
        # unsorted, possibly nested / duplicated intervals: sort and merge have work to do
        return dt.Interval(["chr1"] * len(s), s[::-1].copy(), e[::-1].copy())

    def intervals_sorted(b, table, fmt):
        # sorted by start, stops non-decreasing, no nesting: the shape the sort-and-cumulate tricks take shortcuts on
        if not all(x in fmt.field_names() for x in ("chromosome", "start", "stop")):
            return None
        import bionumpy.datatypes as dt
        s = np.sort(np.asarray(table.start) % 1000)
        s = s + np.arange(len(s)) * 3
        return dt.Interval(["chr1"] * len(s), s, s + 2)

    def intervals_overhang(b, table, fmt):
        # some intervals start before 0 or stop beyond the chromosome end (2000): the shapes clip() has work to do on
        if not all(x in fmt.field_names() for x in ("chromosome", "start", "stop")):
            return None
        import bionumpy.datatypes as dt
        s = (np.asarray(table.start) % 1000) * 3 - 400
        e = s + (np.asarray(table.stop) % 700) + 1
        return dt.Interval(["chr1"] * len(s), s, e)

    def intervals_one_strand_overhang(b, table, fmt):
        # stranded intervals, all on one strand, some reaching beyond the chromosome (2000) / starting below 0
        iv = intervals_overhang(b, table, fmt)
        if iv is None:
            return None
        import bionumpy.datatypes as dt
        minus = int(np.asarray(table.start).sum()) % 2 == 0
        return dt.StrandedInterval(iv.chromosome, iv.start, iv.stop, ["-" if minus else "+"] * len(iv))

    def locations_numeric(b, table, fmt):
        # locations on chromosomes named by bare numbers (Genome.get_locations(..., has_numeric_chromosomes=True))
        if "start" not in fmt.field_names() and "position" not in fmt.field_names():
            return None
        import bionumpy.datatypes as dt
        pos = np.asarray(table.start if "start" in fmt.field_names() else table.position) % 1000
        return dt.LocationEntry([str(1 + int(p) % 2) for p in pos], pos)

    def quality_text(b, table, fmt):
        if fmt.layout != "fastq":
            return None
        return b.as_encoded_array(["".join(chr(33 + q) for q in row) for row in plain(table.quality)])

    def dna(b, table, fmt):
        if "sequence" not in fmt.field_names() or fmt.name == "sam":
            return None
        return b.as_encoded_array(table.sequence, b.DNAEncoding)

    def f_str_to_int(b, x):
        from bionumpy.io.strops import str_to_int
        return str_to_int(x)

    def f_str_to_float(b, x):
        from bionumpy.io.strops import str_to_float
        return str_to_float(x)

    def f_to_genotype_rows(b, x):
        from bionumpy.encodings.vcf_encoding import GenotypeRowEncoding
        return b.as_encoded_array(x, GenotypeRowEncoding)

    def f_to_phased_genotype_rows(b, x):
        from bionumpy.encodings.vcf_encoding import PhasedGenotypeRowEncoding
        return PhasedGenotypeRowEncoding.encode(x)

    # -- one operand without any interval (Interval.empty(), or a filter that kept nothing)
    def _empty():
        import bionumpy.datatypes as dt
        return dt.Interval.empty()

    def f_count_overlap_empty(b, x):
        return b.arithmetics.count_overlap(x, _empty())

    def f_count_overlap_empty_first(b, x):
        return b.arithmetics.count_overlap(_empty(), x)

    def f_intersect_empty(b, x):
        return b.arithmetics.intersect(x, _empty())

    def f_subtract_empty(b, x):
        from bionumpy.arithmetics import subtract
        return subtract(x, _empty())

    def f_sort(b, x):
        return b.arithmetics.sort_intervals(x)

    def f_merge(b, x):
        return b.arithmetics.merge_intervals(x)

    def f_mask(b, x):
        return b.arithmetics.get_boolean_mask(x, 1100)

    def f_pileup(b, x):
        return b.arithmetics.get_pileup(x, 1100)

    def f_revcomp(b, x):
        return b.sequence.get_reverse_complement(x)

    def f_kmers(b, x):
        return b.sequence.get_kmers(x, 1)

    def f_change_encoding(b, x):
        return b.change_encoding(x, b.encodings.BaseEncoding)

    def f_tolist(b, x):
        return x.tolist()

    def f_merge_distance(b, x):
        return b.arithmetics.merge_intervals(x, distance=7)

    def f_g_merged_distance(b, x):
        return _gi(b, x).merged(distance=5).get_data()

    def f_to_quality(b, x):
        return b.as_encoded_array(x, b.encodings.QualityEncoding)

    # -- more interval arithmetic (two-argument functions are called with the table and a shifted copy of it)
    def _shifted(x):
        import bionumpy.datatypes as dt
        return dt.Interval(x.chromosome, np.asarray(x.start) + 2, np.asarray(x.stop) + 3)

    def f_intersect(b, x):
        return b.arithmetics.intersect(x, _shifted(x))

    def f_unique_intersect(b, x):
        return b.arithmetics.unique_intersect(x, _shifted(x), 2000)

    def f_count_overlap(b, x):
        return b.arithmetics.count_overlap(x, _shifted(x))

    def f_jaccard(b, x):
        return b.arithmetics.jaccard({"chr1": 2000}, x, _shifted(x))

    # -- genomic-data methods on the interval table handed to Genome.get_intervals
    def _gi(b, x):
        return b.Genome.from_dict({"chr1": 2000}).get_intervals(x)

    def f_g_mask(b, x):
        return _gi(b, x).get_mask().get_data()

    def f_g_pileup(b, x):
        return _gi(b, x).get_pileup().get_data()

    def f_g_merged(b, x):
        return _gi(b, x).merged().get_data()

    def f_g_clip(b, x):
        return _gi(b, x).clip().get_data()

    def f_g_extended(b, x):
        return _gi(b, x).extended_to_size(30).get_data()

    def f_g_extended_clip(b, x):
        return _gi(b, x).extended_to_size(30).clip().get_data()

    def f_extend_to_size_fn(b, x):
        from bionumpy.arithmetics.intervals import extend_to_size
        return extend_to_size(x, 30, 2000)

    def f_g_extended_stranded(b, x):
        return b.Genome.from_dict({"chr1": 2000}).get_intervals(x, stranded=True).extended_to_size(30).get_data()

    def f_g_locations_numeric(b, x):
        g = b.Genome.from_dict({"chr1": 2000, "chr2": 2000})
        return g.get_locations(x, has_numeric_chromosomes=True).get_data()

    def f_g_locations_windows(b, x):
        g = b.Genome.from_dict({"chr1": 2000, "chr2": 2000})
        return g.get_locations(x, has_numeric_chromosomes=True).get_windows(flank=5).get_data()

    def f_g_sorted(b, x):
        return _gi(b, x).sorted().get_data()

    # -- table methods
    def f_t_sort_by(b, x):
        return x.sort_by("start")

    def f_t_concat(b, x):
        return np.concatenate([x, x])

    def f_t_replace(b, x):
        return b.replace(x, start=np.asarray(x.start) + 1)

    def f_t_reverse(b, x):
        return x[::-1]

    def f_t_tolist(b, x):
        return x.tolist()

    def f_t_mask(b, x):
        return x[np.asarray(x.start) % 2 == 0]

    # -- more sequence functions
    def f_kmers3(b, x):
        return b.sequence.get_kmers(x, 3)

    def f_minimizers(b, x):
        return b.sequence.get_minimizers(x, 2, 3)

    def f_count_kmers(b, x):
        return b.sequence.count_kmers(x, 2)

    def f_match_string(b, x):
        return b.sequence.match_string(x, "AC")

    def f_translate(b, x):
        return b.sequence.translate_dna_to_protein(x[:, :3])

    def f_as_ascii(b, x):
        return b.as_encoded_array(x, b.encodings.BaseEncoding)

    def text_seq(b, table, fmt):
        if "sequence" not in fmt.field_names() or fmt.name == "sam":
            return None
        return b.as_encoded_array([str(s) for s in plain(table.sequence)])

    def f_to_dna(b, x):
        return b.as_encoded_array(x, b.DNAEncoding)

    return [("str_to_int", ints_text, f_str_to_int), ("str_to_float", floats_text, f_str_to_float),
            ("str_to_int_plus_signed", ints_text_plus, f_str_to_int), ("str_to_int_unsigned", ints_text_unsigned, f_str_to_int),
            ("str_to_float_positive", floats_text_positive, f_str_to_float),
            ("str_to_float_scientific", floats_text_scientific, f_str_to_float),
            ("str_to_int_row_view", ints_text_row_view, f_str_to_int), ("str_to_int_column_view", ints_text_column_view, f_str_to_int),
            ("str_to_int_split_pieces", ints_text_split_pieces, f_str_to_int), ("str_to_float_row_view", floats_text_row_view, f_str_to_float),
            ("as_encoded_array_genotype_rows", genotype_rows_text, f_to_genotype_rows),
            ("phased_genotype_rows_encode", genotype_rows_text, f_to_phased_genotype_rows),
            ("as_encoded_array_genotype_matrix", genotype_rows_matrix, f_to_genotype_rows),
            ("phased_genotype_matrix_encode", genotype_rows_matrix, f_to_phased_genotype_rows),
            ("count_overlap_with_empty", intervals, f_count_overlap_empty), ("count_overlap_empty_first", intervals, f_count_overlap_empty_first),
            ("intersect_with_empty", intervals, f_intersect_empty), ("subtract_empty", intervals, f_subtract_empty),
            ("user_format_list_field_access", user_list_table, f_user_list_field),
            ("run_length_array_from_bedgraph_nan", bedgraph_gapless_nan, f_rla_from_bedgraph),
            ("geometry_get_track_nan", bedgraph_gapless_nan, f_geometry_get_track),
            ("genome_get_track_nan", bedgraph_gapless_nan, f_genome_get_track),
            ("get_reverse_complement_ascii_mixed_case", dna_ascii_mixed_case, f_revcomp),
            ("sort_intervals", intervals, f_sort), ("merge_intervals", intervals, f_merge),
            ("get_boolean_mask", intervals, f_mask), ("get_pileup", intervals, f_pileup),
            ("get_reverse_complement", dna, f_revcomp), ("get_kmers", dna, f_kmers),
            ("change_encoding", dna, f_change_encoding), ("tolist", dna, f_tolist),
            ("intersect", intervals, f_intersect), ("unique_intersect", intervals, f_unique_intersect),
            ("count_overlap", intervals, f_count_overlap), ("jaccard", intervals, f_jaccard),
            ("genome_get_mask", intervals, f_g_mask), ("genome_get_pileup", intervals, f_g_pileup),
            ("genome_merged", intervals, f_g_merged), ("genome_clip", intervals, f_g_clip),
            ("genome_extended_to_size", intervals, f_g_extended), ("genome_sorted", intervals, f_g_sorted),
            ("extend_to_size_one_strand_overhang", intervals_one_strand_overhang, f_extend_to_size_fn),
            ("genome_extended_stranded_overhang", intervals_one_strand_overhang, f_g_extended_stranded),
            ("genome_get_locations_numeric", locations_numeric, f_g_locations_numeric),
            ("genome_locations_windows_numeric", locations_numeric, f_g_locations_windows),
            ("genome_clip_overhang", intervals_overhang, f_g_clip), ("genome_extended_clip_overhang", intervals_overhang, f_g_extended_clip),
            ("table_sort_by", intervals, f_t_sort_by), ("table_concatenate", intervals, f_t_concat),
            ("table_replace", intervals, f_t_replace), ("table_reverse", intervals, f_t_reverse),
            ("table_tolist", intervals, f_t_tolist), ("table_mask", intervals, f_t_mask),
            ("get_kmers_3", dna, f_kmers3), ("get_minimizers", dna, f_minimizers), ("count_kmers", dna, f_count_kmers),
            ("match_string", dna, f_match_string), ("translate", dna, f_translate), ("as_encoded_array_base", dna, f_as_ascii),
            ("as_encoded_array_dna", text_seq, f_to_dna),
            ("merge_intervals_distance", intervals, f_merge_distance),
            ("merge_intervals_distance_sorted", intervals_sorted, f_merge_distance),
            ("merge_intervals_sorted", intervals_sorted, f_merge), ("sort_intervals_sorted", intervals_sorted, f_sort),
            ("genome_merged_distance", intervals_sorted, f_g_merged_distance),
            ("genome_get_pileup_sorted", intervals_sorted, f_g_pileup),
            ("as_encoded_array_quality", quality_text, f_to_quality)]


API = _api()


def render_any(x):
    if hasattr(x, "_bnpsim_render"):
        r = call(x._bnpsim_render)
        return "Raised:" + r.type if raised(r) else r
    p = call(plain, x)
    if raised(p):
        return "unrenderable:" + p.type
    if isinstance(p, str) and p.startswith("<") and hasattr(x, "to_dict"):
        return call(lambda: plain(x.to_dict()))
    return p


# ---------------------------------------------------------------------------------------------

def operands_of(op):
    return [op["src"]] if "src" in op else list(op.get("srcs", []))


def execute(ctx, sc):
    f = _c01.File(sc["file"])
    fmt = f.fmt
    lazy = f.spec.lazy
    probe = L.World(f, lazy, sc["chunk_k"])
    with simfs.Mount(probe.fs), core.quiet():
        e = probe.start()
    if e is not None:
        raise Inconclusive("source read raises: " + e.type)
    ops = _c04.fit_program(sc["ops"], probe.chunk_rows)
    detail0 = {"file": f.brief(), "chunk_k": sc["chunk_k"], "chunk_rows": probe.chunk_rows, "ops": ops[:16]}
    kinds = [o["op"] for o in ops]
    io_events = 0

    def fresh(prefix, targets):
        w = L.World(f, lazy, sc["chunk_k"])
        st = w.run_and_observe(prefix, targets)
        nonlocal io_events
        io_events += w.fs.seq
        return w, st

    n_vars_before = []          # number of variables that exist before op j
    nv = len(probe.chunk_rows)
    for op in ops:
        n_vars_before.append(nv)
        if op["op"] in ("sel", "concat", "replace"):
            nv += 1
    for j, op in enumerate(ops):
        targets = sorted(set(operands_of(op)))
        if op["op"] in ("setattr", "setctx"):
            # explicit attribute assignment changes its target (excluded by the property) — and nothing else:
            # every OTHER variable is bracketed
            targets = [t for t in range(n_vars_before[j]) if t != op["src"]]
            if not targets:
                continue
        ctx.steps += 1
        w0, before = fresh(ops[:j], targets)
        if raised(before):
            raise Inconclusive("source read raises: " + before.type)
        if any(isinstance(before[t], str) for t in targets):
            continue    # operand could not be created: nothing to bracket
        w1, after = fresh(ops[:j + 1], targets)
        ctx.evals += 1
        fk = dict(fmt.fields).get(op.get("field"), "-")
        ctx.state(fmt.name, lazy, op["op"], fk, kinds[j - 1] if j else "-")
        if op["op"] == "get":
            ctx.probe("field_access_" + fk)
        d = dict(detail0, step=j, op=op)
        if raised(after):
            raise Inconclusive("source read raises: " + after.type)
        for t in targets:
            if not core.same(before[t], after[t]):
                which = next((k for k in ("len", "rows", "write") if not core.same(before[t][k], after[t].get(k) if isinstance(after[t], dict) else None)), "state")
                d.update({"operand": t, "differs_in": which,
                          "before": core.short(before[t].get(which), 400),
                          "after": core.short(after[t].get(which) if isinstance(after[t], dict) else after[t], 400)})
                raise Violation("operand_unchanged", f"{fmt.name}.{op['op']}.{which}", d)
        if op["op"] in ("setattr", "setctx"):
            continue
        # twice-applied equality
        w2 = L.World(f, lazy, sc["chunk_k"])
        err = w2.run(ops[:j + 1] + [op])
        io_events += w2.fs.seq
        if err is None:
            r1, r2 = w2.results[j], w2.results[j + 1]
            ctx.evals += 1
            if raised(r1) != raised(r2):
                raise Violation("twice_equal", f"{fmt.name}.{op['op']}.one_fails", dict(d, first=repr(r1)[:200], second=repr(r2)[:200]))
            if not raised(r1):
                if op["op"] in ("sel", "concat", "replace"):
                    with simfs.Mount(w2.fs), core.quiet():
                        a, b_ = w2.observe(w2.vars[-2]), w2.observe(w2.vars[-1])
                    if not core.same(a, b_):
                        raise Violation("twice_equal", f"{fmt.name}.{op['op']}.differs",
                                        dict(d, first=core.short(a, 300), second=core.short(b_, 300)))
                elif not core.same(r1, r2):
                    raise Violation("twice_equal", f"{fmt.name}.{op['op']}.differs",
                                    dict(d, first=core.short(r1, 300), second=core.short(r2, 300)))

    # API actor on live objects of a fresh world
    b = core.bnp()
    w = L.World(f, lazy, sc["chunk_k"])
    with simfs.Mount(w.fs), core.quiet():
        if w.start() is None and w.vars:
            table = w.vars[0]
            for ai in sc["api"]:
                name, make, fn = API[ai % len(API)]
                obj = call(make, b, table, fmt)
                if obj is None or raised(obj):
                    continue
                # the snapshot comes from a twin built the same way and never handed to the function: rendering the
                # argument itself would flatten a view and could hide a write through it
                twin = call(make, b, table, fmt)
                snap = render_any(twin)
                snap_table = w.observe(table, with_write=True)
                r1 = call(fn, b, obj)
                ctx.evals += 1
                ctx.steps += 1
                ctx.state(fmt.name, lazy, "api", name)
                ctx.probe("api_" + name)
                now = render_any(obj)
                d = dict(detail0, api=name)
                if not core.same(snap, now):
                    raise Violation("argument_unchanged", f"api.{name}", dict(d, before=core.short(snap, 300), after=core.short(now, 300)))
                r2 = call(fn, b, obj)
                if raised(r1) != raised(r2) or (not raised(r1) and not core.same(render_any(r1), render_any(r2))):
                    raise Violation("twice_equal", f"api.{name}", dict(d, first=core.short(render_any(r1), 300), second=core.short(render_any(r2), 300)))
                after_table = w.observe(table, with_write=True)
                if not core.same(snap_table, after_table):
                    raise Violation("argument_unchanged", f"api.{name}.source_table", dict(d, before=core.short(snap_table, 300), after=core.short(after_table, 300)))
    io_events += w.fs.seq
    ctx.io_events += io_events
    ctx.note("C20", fmt.name, kinds, sc["api"])
