"""C03 — write then read returns the same table; writing is canonical and composable  (iosim)

History = how the rows are cut into pieces, how each piece is written (write(table), write(stream of pieces)),
where the writer is closed and reopened in append mode, the target (plain / gzip), an optional interleaved
second writer and an optional one-shot EIO on a write.
"""
import gzip as _gzip

from .. import core, simfs
from ..core import Violation, Inconclusive, raised, call
from ..engines import iosim
from ..models import text as T

ID = "C03"
LEVEL = "exploration"
ENGINE = "iosim"
RULE = ("one evaluation = one write history (cut set of the rows x write(table)/write(stream)/close+reopen-append ops x "
        "plain/gzip target) executed on simulated storage; judged by (i) prefix consistency after every step, (ii) final "
        "content == one write of the whole table, (iii) canonical layout per the reference model, (iv) read-back == table. "
        "Non-trivial = at least 2 write steps or a reopen; distinct = distinct tuples (format, target, op-kind sequence "
        "class, number of pieces bucket, reopen count bucket, empty piece present, interleaved, fault)")
BUDGET = {"quick": (20000, 40), "thorough": (400000, 900)}

FORMAT_WEIGHTS = [(3, "bed3"), (3, "bed6"), (2, "bed12"), (3, "bdg"), (3, "narrowpeak"), (3, "fastaw"), (2, "fasta2"),
                  (3, "fastq"), (3, "sam"), (2, "gtf"), (2, "vcf")]

FASTA_LENGTHS = [1, 2, 79, 80, 81, 159, 160, 161, 7, 240]


def gen_rows(ctx, fmt, max_rows):
    tape = ctx.tape
    style = {"allow_mixed_optint": False}
    recs = T.gen_records(tape, fmt, max_rows, noncanon=False, min_records=0, style=style)
    for r in recs:
        t = r["texts"]
        r["extra_cols"] = []
        r.pop("plus", None)
        for fname, kind in fmt.fields:
            if kind == "optint" and t[fname] == ".":
                t[fname] = "0"
            if kind == "pos1":
                t[fname] = str(int(t[fname]))
            if kind in ("int", "sint", "optint"):
                t[fname] = str(int(t[fname]))
            if kind == "float" and tape.boolean("float_extreme", 1, 5):
                # values whose shortest round-trip text is long: many significant digits, sign, three-digit exponents
                t[fname] = tape.choice(["-1.2345678901234567e-100", "1.7976931348623157e+308", "5e-324",
                                        "-2.2250738585072014e-308", "0.30000000000000004", "1e+22", "1e-07",
                                        "123456789.12345679", "-9.999999999999999e+99", "1.0000000000000002"], "float_extreme.v")
            if kind in ("int", "sint", "pos1") and tape.boolean("pow10", 1, 5):
                # widths are derived with log10: values at and next to powers of ten, up to the int64 range
                k = 1 + tape.draw(18, "pow10.k")
                v = 10 ** k + (tape.draw(5, "pow10.d") - 2)
                if kind == "sint" and tape.boolean("pow10.neg", 1, 3):
                    v = -v
                t[fname] = str(max(v, 1) if kind != "sint" else v)
            if kind == "sint" and tape.boolean("int64_min", 1, 25) and not ctx.excl:
                # KF-C03-int64-min (open): the most negative int64 is printed as '-2' (np.abs overflows); generated in the
                # 10 % of the runs that do not apply the exclusions of open findings
                t[fname] = str(-2 ** 63)
        if fmt.layout == "fastaw":
            n = FASTA_LENGTHS[tape.draw(len(FASTA_LENGTHS), "fa.len")]
            t["sequence"] = "".join("ACGT"[(i * 7 + n) % 4] for i in range(n))
        if fmt.name == "sam" and t.get("quality") not in (None, "*"):
            pass
    return recs


def generate(ctx):
    tape = ctx.tape
    max_rows = 10 if ctx.tier == "thorough" else 6
    fmt = T.FORMATS[tape.weighted(FORMAT_WEIGHTS, "fmt")]
    rows = gen_rows(ctx, fmt, max_rows)
    n = len(rows)
    # cut set -> pieces (empty pieces possible at low weight)
    cuts = sorted(set(tape.draw(n + 1, "cut") for _ in range(tape.weighted([(2, 0), (3, 1), (2, 2), (1, 4)], "ncuts"))))
    bounds = [0] + cuts + [n]
    pieces = [[bounds[i], bounds[i + 1]] for i in range(len(bounds) - 1)]
    if tape.boolean("empty_piece", 1, 6):
        j = tape.draw(len(pieces) + 1, "empty_at")
        at = pieces[j][0] if j < len(pieces) else n
        pieces.insert(j, [at, at])
    # ops
    ops = []
    i = 0
    while i < len(pieces):
        kind = tape.weighted([(4, "write"), (2, "stream"), (2, "reopen")], "op")
        if kind == "reopen":
            if ops and ops[-1]["op"] != "reopen":
                ops.append({"op": "reopen"})
            kind = "write"
        if kind == "stream":
            m = 1 + tape.draw(min(3, len(pieces) - i), "stream.n")
            ops.append({"op": "stream", "pieces": pieces[i:i + m]})
            i += m
        else:
            ops.append({"op": "write", "piece": pieces[i]})
            i += 1
    gz = tape.boolean("gzip", 1, 3)
    # where the table comes from: the public constructor, or an eager read of a canonical file (then it carries the
    # source file's header as context, which must be written exactly once)
    source = tape.weighted([(3, "memory"), (1, "eager_read"), (1, "lazy_read"), (1, "lazy_select"), (1, "eager_select"),
                            (1, "lazy_permuted")], "source") if rows else "memory"
    sc = {"format": fmt.name, "rows": rows, "ops": ops, "gzip": gz, "path": f"/sim/o{fmt.suffix}{'.gz' if gz else ''}",
          "eio_nth": 0, "second": None, "interleaving": [], "source": source}
    if fmt.layout == "fastaw" and tape.boolean("fa.width", 1, 3):
        # a FASTA writer with another line width (subclass of the buffer type with n_characters_per_line overridden)
        sc["fasta_width"] = tape.choice([60, 7, 100], "fa.width.v")
    if tape.boolean("first_mode_append", 1, 6):
        sc["first_mode"] = "a"
    if source == "lazy_permuted":
        # the file holds the rows in another order; the table is file_table[perm] (an integer list that is not ascending)
        pool = list(range(len(rows)))
        perm = []
        while pool:
            perm.append(pool.pop(tape.draw(len(pool), "perm.pick")))
        sc["select"] = {"perm": perm}
    if source in ("lazy_select", "eager_select"):
        # the table is what is left of a larger file: decoy records in front of some rows are de-selected (integer list
        # for the first part, boolean mask for the second) and the two selections concatenated
        sc["select"] = {"decoy_before": [tape.boolean("sel.decoy") for _ in rows], "split": tape.draw(len(rows) + 1, "sel.split")}
    if tape.boolean("eio", 1, 8):
        sc["eio_nth"] = 1 + tape.draw(4, "eio.nth")
    elif tape.boolean("second_writer", 1, 5):
        fmt2 = T.FORMATS[tape.weighted(FORMAT_WEIGHTS, "b.fmt")]
        rows2 = gen_rows(ctx, fmt2, 4)
        c2 = tape.draw(len(rows2) + 1, "b.cut")
        sc["second"] = {"format": fmt2.name, "rows": rows2, "path": f"/sim/p{fmt2.suffix}",
                        "ops": [{"op": "write", "piece": [0, c2]}, {"op": "write", "piece": [c2, len(rows2)]}]}
        sc["interleaving"] = [tape.draw(2, "sched.actor") for _ in range(24)]
    return sc


# ---------------------------------------------------------------------------------------------

def build_table(fmt, rows):
    """in-memory table through the public constructor of the entry type"""
    b = core.bnp()
    import bionumpy.datatypes as dt
    cls = getattr(dt, fmt.dataclass)
    cols = {}
    for fname, kind in fmt.fields:
        vals = [T.value_of(kind, r["texts"][fname]) for r in rows]
        if kind == "qual":
            vals = [r["texts"][fname] for r in rows]
        cols[fname] = vals
    return cls(**cols), cls


class Writer:
    """writer actor: one op per step"""

    def __init__(self, fs, d, fmt, table, cls):
        self.fs, self.d, self.fmt, self.table, self.cls = fs, d, fmt, table, cls
        self.path = d["path"]
        n = call(len, table)
        self.n_rows = -1 if raised(n) else n
        self.bt = iosim.resolve(fmt.buffer) if fmt.buffer else None
        if d.get("fasta_width") and fmt.layout == "fastaw":
            base = self.bt or iosim.resolve(fmt.bufpath)
            self.bt = type("FastaWidth%d" % d["fasta_width"], (base,), {"n_characters_per_line": d["fasta_width"]})
        self.w = None
        self.error = None
        self.done = False
        self.rows_written = 0
        self.steps = 0
        self._it = self._run()

    def _open(self, mode):
        b = core.bnp()
        return call(lambda: b.open(self.path, mode, buffer_type=self.bt))

    def _run(self):
        b = core.bnp()
        w = self._open(self.d.get("first_mode") or "w")      # "a": a target that does not exist yet opened for appending
        if raised(w):
            self.error = w
            return
        self.w = w
        yield "open"
        for op in self.d["ops"]:
            if op["op"] == "reopen":
                r = call(self.w.close)
                if not raised(r):
                    r = self._open("a")
                if raised(r):
                    self.error = r
                    return
                self.w = r
                yield "reopen"
                continue
            if op["op"] == "write":
                a, z = op["piece"]
                # the whole table is handed over as the object itself (no slicing in between), a part as a slice
                piece = self.table if (a == 0 and z == self.n_rows) else self.table[a:z]
                r = call(self.w.write, piece)
                self.rows_written_target = z
            else:
                parts = [self.table if (a == 0 and z == self.n_rows) else self.table[a:z] for a, z in op["pieces"]]
                stream = b.streams.NpDataclassStream(iter(parts), dataclass=self.cls)
                r = call(self.w.write, stream)
                self.rows_written_target = op["pieces"][-1][1]
            if raised(r):
                self.error = r
                return
            self.rows_written = self.rows_written_target
            yield op["op"]
        r = call(self.w.close)
        if raised(r):
            self.error = r
            return
        self.done = True
        yield "close"

    def step(self):
        try:
            what = next(self._it)
            self.steps += 1
            return what
        except StopIteration:
            return None

    def visible_bytes(self):
        """what a reader of the target would see if the writer flushed now (plain targets only)"""
        h = getattr(self.w, "_file_obj", None)
        if isinstance(h, simfs.SimHandle):
            return bytes(h._buf)
        return None


def split_header(fmt, data):
    """leading header lines of the written file (VCF '#', SAM '@')"""
    mark = {"vcf": b"#", "vcfinfo": b"#", "vcfgt": b"#", "sam": b"@"}.get(fmt.header or "")
    if not mark:
        return b"", data
    pos = 0
    while data[pos:pos + 1] == mark:
        nl = data.find(b"\n", pos)
        if nl < 0:
            pos = len(data)
            break
        pos = nl + 1
    return data[:pos], data[pos:]


def check_canonical(fmt, body, rows, where, detail):
    """body bytes == canonical serialisation of rows (floats and int lists by value, SAM empty tag column lenient)"""
    style = {"crlf": False}
    if b"\r" in body:
        raise Violation("canonical", f"{fmt.name}.carriage_return", dict(detail, where=where, body=core.esc(body[:300])))
    if body and not body.endswith(b"\n"):
        raise Violation("canonical", f"{fmt.name}.unterminated", dict(detail, where=where, body=core.esc(body[-200:])))
    vbody = body     # (an empty SAM optional-tags column is left out together with its separator: no trailing tab)
    res = T.validate(fmt, vbody, style)
    if res[0] != "ok":
        raise Violation("canonical", f"{fmt.name}.malformed_output",
                        dict(detail, where=where, line=res[1], reason=res[2], body=core.esc(body[:400])))
    got = res[1]
    if len(got) != len(rows):
        raise Violation("canonical", f"{fmt.name}.record_count",
                        dict(detail, where=where, expected=len(rows), got=len(got), body=core.esc(body[:400])))
    for i, (g, r) in enumerate(zip(got, rows)):
        if g["extra_cols"]:
            raise Violation("canonical", f"{fmt.name}.extra_columns", dict(detail, where=where, record=i, extra=g["extra_cols"]))
        for fname, kind in fmt.fields:
            et, gt = r["texts"][fname], g["texts"][fname]
            if kind == "float":
                ok = core.same(float(et), float(gt), rel=1e-6, abs_=1e-9)
            elif kind == "listint":
                ok = T.value_of(kind, et) == T.value_of(kind, gt)
            else:
                ok = et == gt
            if not ok:
                raise Violation("canonical", f"{fmt.name}.{fname}",
                                dict(detail, where=where, record=i, field=fname, expected=et, got=gt))
    if fmt.layout == "fastaw":
        # record layout: every sequence line of a record but the last has the same width
        lines = body.decode("latin1").split("\n")[:-1]
        cur = []
        for ln in lines + [">"]:
            if ln.startswith(">"):
                if len(cur) > 1 and (len(set(len(x) for x in cur[:-1])) > 1 or len(cur[-1]) > len(cur[0])):
                    raise Violation("canonical", f"{fmt.name}.wrap", dict(detail, where=where, widths=[len(x) for x in cur][:10]))
                width = detail.get("fasta_width") or 80      # the writer's line width (80 unless overridden)
                if cur and (any(len(x) != width for x in cur[:-1]) or len(cur[-1]) > width):
                    raise Violation("canonical", f"{fmt.name}.line_width", dict(detail, where=where, width=width,
                                                                                  widths=[len(x) for x in cur][:10]))
                cur = []
            else:
                cur.append(ln)


def content_of(fs, path, gz):
    data = fs.files.get(path)
    if data is None:
        return None
    if gz:
        return _gzip.decompress(data) if data else b""
    return data


def execute(ctx, sc):
    fmt = T.FORMATS[sc["format"]]
    rows = sc["rows"]
    fs = simfs.SimFS()
    detail = {"format": fmt.name, "gzip": sc["gzip"], "ops": sc["ops"], "n_rows": len(rows), "fasta_width": sc.get("fasta_width"),
              "rows": [r["texts"] for r in rows][:8]}
    kinds = [o["op"] for o in sc["ops"]]
    n_reopen = kinds.count("reopen")
    with simfs.Mount(fs), core.quiet():
        source = sc.get("source", "memory")
        detail["source"] = source
        if source == "memory":
            bt = call(build_table, fmt, rows)
            if raised(bt):
                raise Violation("constructible", f"{fmt.name}.constructor_raises", dict(detail, error=repr(bt)))
            table, cls = bt
        else:
            src_style = {"crlf": False, "final_newline": True, "header": bool(fmt.header), "wrap": 60}
            file_rows, keep = rows, None
            perm = None
            if source == "lazy_permuted":
                perm = list(sc["select"]["perm"])
                file_rows = [None] * len(rows)
                for i, r in enumerate(rows):
                    file_rows[perm[i]] = r
            if source.endswith("_select"):
                file_rows, keep = [], []
                for i, r in enumerate(rows):
                    if sc["select"]["decoy_before"][i]:
                        file_rows.append(rows[(i + 1) % len(rows)])
                    keep.append(len(file_rows))
                    file_rows.append(r)
            src_data, _ = T.serialize(fmt, file_rows, src_style)
            src_path = "/sim/src" + fmt.suffix
            fs.put(src_path, src_data)
            spec = iosim.ReaderSpec(fmt, src_path, False, source.startswith("lazy"), "path")

            def read_src():
                import numpy as np
                r = iosim.open_reader(spec)
                try:
                    t = r.read()
                finally:
                    r.close()
                if perm is not None:
                    return t[perm]
                if keep is None:
                    return t
                a = sc["select"]["split"]
                parts = []
                if keep[:a]:
                    parts.append(t[list(keep[:a])])
                if keep[a:]:
                    mask = np.zeros(len(file_rows), dtype=bool)
                    mask[keep[a:]] = True
                    parts.append(t[mask])
                return parts[0] if len(parts) == 1 else np.concatenate(parts)
            table = call(read_src)
            if raised(table):
                raise Inconclusive("source read raises: " + table.type)
            import bionumpy.datatypes as dt
            cls = getattr(dt, fmt.dataclass)
            ctx.probe("table_from_" + source)
        # reference: one write of the whole table
        ref_path = "/sim/ref" + fmt.suffix
        refw = Writer(fs, {"path": ref_path, "ops": [{"op": "write", "piece": [0, len(rows)]}], "fasta_width": sc.get("fasta_width")},
                      fmt, table, cls)
        while refw.step():
            pass
        if refw.error is not None:
            raise Violation("single_write", f"{fmt.name}.raises", dict(detail, error=repr(refw.error)))
        ref_bytes = fs.files[ref_path]
        ref_header, ref_body = split_header(fmt, ref_bytes)
        ctx.evals += 1
        check_canonical(fmt, ref_body, rows, "single_write", detail)

        actors = [Writer(fs, sc, fmt, table, cls)]
        second = sc.get("second")
        if second:
            fmt2 = T.FORMATS[second["format"]]
            bt2 = call(build_table, fmt2, second["rows"])
            if not raised(bt2):
                actors.append(Writer(fs, second, fmt2, bt2[0], bt2[1]))
        if sc["eio_nth"]:
            fs.plant_eio(sc["path"], "write", sc["eio_nth"])
        live = list(range(len(actors)))
        inter = sc.get("interleaving") or []
        order = []
        w0 = actors[0]
        while live:
            a = live[(inter[len(order)] if len(order) < len(inter) else 0) % len(live)] if len(live) > 1 else live[0]
            order.append(a)
            what = actors[a].step()
            ctx.steps += 1
            if what is None:
                live.remove(a)
                continue
            if a == 0 and not sc["gzip"] and what in ("write", "stream", "reopen") and not fs.fault_fired:
                # (i) prefix consistency after every step
                vis = w0.visible_bytes()
                if vis is not None:
                    ctx.evals += 1
                    h, body = split_header(fmt, vis)
                    d2 = dict(detail, step=w0.steps, after=what)
                    if h != ref_header and (w0.rows_written > 0 or h != b""):
                        raise Violation("prefix", f"{fmt.name}.header", dict(d2, header=core.esc(h), expected=core.esc(ref_header)))
                    check_canonical(fmt, body, rows[:w0.rows_written], "prefix", d2)
        ctx.trace["order"] = order
        for k, v in fs.fault_fired.items():
            ctx.fault(k, v)
        fired = bool(fs.fault_fired)
        fs.faults.clear()
        ctx.state(fmt.name, sc["gzip"], "+".join(sorted(set(kinds))), min(len(kinds), 4), min(n_reopen, 2),
                  any(o.get("piece", [0, 1])[0] == o.get("piece", [0, 1])[1] for o in sc["ops"] if o["op"] == "write"),
                  bool(second), "eio" if fired else None, sc.get("source", "memory"))
        if n_reopen:
            ctx.probe("reopen_append")
        if "stream" in kinds:
            ctx.probe("write_stream")
        if sc["gzip"]:
            ctx.probe("gzip_target")
        if len(actors) > 1:
            ctx.probe("interleaved_writers")
        if w0.error is not None:
            if fired:
                ctx.probe("eio_surfaced")
                return
            raise Violation("history_write", f"{fmt.name}.raises", dict(detail, error=repr(w0.error), step=w0.steps))
        # (ii) final content == single write of the concatenated table, header exactly once
        final = call(content_of, fs, sc["path"], sc["gzip"])
        if raised(final) or final is None:
            raise Violation("final", f"{fmt.name}.unreadable_output", dict(detail, error=repr(final)))
        ctx.evals += 1
        if final != ref_bytes:
            h, body = split_header(fmt, final)
            d2 = dict(detail, final=core.esc(final[:500]), single=core.esc(ref_bytes[:500]))
            if fired:
                raise Violation("eio_swallowed", f"{fmt.name}.content_differs", d2)
            if h != ref_header or body.count(ref_header) > 0 and ref_header:
                raise Violation("composable", f"{fmt.name}.header", d2)
            raise Violation("composable", f"{fmt.name}.content_differs", d2)
        # second writer: judged on its own
        if len(actors) > 1 and actors[1].error is None:
            f2 = T.FORMATS[second["format"]]
            out2 = fs.files.get(second["path"], b"")
            _, body2 = split_header(f2, out2)
            check_canonical(f2, body2, second["rows"], "second_writer", {"format": f2.name})
        # (iii) read back
        if rows:
            spec = iosim.ReaderSpec(fmt, sc["path"], sc["gzip"], None, "path")
            back = iosim.read_whole(spec)
            ctx.evals += 1
            if raised(back):
                raise Violation("read_back", f"{fmt.name}.raises", dict(detail, error=repr(back)))
            try:
                iosim.compare_with_model(fmt, rows, back, "read_back")
            except Violation as v:
                v.oracle = "read_back"
                v.detail.update(detail)
                raise
    ctx.io_events += fs.seq
    ctx.note("C03", fmt.name, kinds, fs.seq, core.digest(fs.log))
