"""C04 — unmodified records and fields are written back byte-for-byte  (lazysim)

Clause 1: a variable obtained from ONE read by selections only is written as exactly the source bytes of its
          records in its order (header: exactly the source header, or none; never twice).
Clause 2: after concatenation / field replacement every non-replaced field of the entry type keeps its source
          text in every record; replaced fields carry the canonical text of the new values.
"""
from .. import core, simfs
from ..core import Violation, Inconclusive, raised
from ..engines import iosim, lazysim as L
from ..models import text as T
from . import C01 as _c01

ID = "C04"
LEVEL = "exploration"
ENGINE = "lazysim"
RULE = ("one evaluation = one written variable of one operation history (select / concatenate / replace / field access / "
        "write, <= 12 ops) on tables read lazily from a generated file (non-canonical spellings, CRLF, extra columns, "
        "FASTQ '+name'), compared with the bytes / field texts the row model predicts. Non-trivial = the variable went "
        "through >= 1 operation; distinct = distinct tuples (format, CRLF, chunked origin, op-kind 3-gram, clause, "
        "repeat/negative index present, replaced field kind, fields cached before the write)")
BUDGET = {"quick": (12000, 40), "thorough": (200000, 900)}

FORMAT_WEIGHTS = [(3, "bed3"), (3, "bed6"), (2, "narrowpeak"), (3, "vcf"), (3, "sam"), (1, "gtf"), (3, "fastq"),
                  (2, "fasta2"), (1, "bdg"), (2, "bed12"), (2, "vcfinfo"), (2, "vcfgt")]


def generate(ctx, format_weights=None, noncanon=True, max_ops=None):
    tape = ctx.tape
    thorough = ctx.tier == "thorough"
    fd = _c01.gen_file(ctx, "", 8 if thorough else 5, format_weights=format_weights or FORMAT_WEIGHTS,
                       noncanon=noncanon, allow_gzip=False, lazy_choices=(None, True))
    if fd["format"] == "gtf" and ctx.excl and noncanon:
        # KF-C04-gtf-always-eager: GTF is parsed eagerly by design, so write-back re-serialises (non-canonical integer
        # spellings and CRLF are normalised). In 90 % of runs GTF sources are canonical LF files.
        t2 = ctx.tape
        fd2 = dict(fd)
        recs = [dict(r, texts=dict(r["texts"])) for r in fd["records"]]
        for r in recs:
            for fname in ("start", "stop"):
                r["texts"][fname] = str(int(r["texts"][fname]))
        style = dict(fd["style"], crlf=False)
        data, lay = T.serialize(T.FORMATS["gtf"], recs, style)
        fd.update({"style": style, "records": recs, "data": core.esc(data), "size": len(data),
                   "header_len": lay["header_len"],
                   "spans": [[r["start"], r["end"], r["first_line"], r["n_lines"]] for r in lay["records"]],
                   "fspans": [{k: [v[0], len(v[1])] for k, v in r["fields"].items()} for r in lay["records"]]})
    fd["route"] = "path"
    n = fd["n_records"]
    chunked = tape.boolean("chunked", 1, 3)
    k = None
    if chunked:
        k = 1 + tape.draw(fd["size"] + 2, "chunk_k")
    # the model needs the rows per chunk: computed at execution time from the real chunking (the cut points do not
    # depend on the lazy flag); the program is generated against a provisional chunking of whole-read shape and
    # re-validated at execution (ops whose indices do not fit are skipped and counted)
    nchunks_guess = [n]
    ops = L.gen_program(ctx, fd, nchunks_guess, max_ops or (12 if thorough else 8), allow_item=False)
    return {"file": fd, "chunk_k": k, "ops": ops}


def fit_program(ops, chunk_rows):
    """re-base a program generated for a single whole-read variable onto the actual initial chunk variables:
    variable 0 of the generated program is the concatenation of the chunks; programs are only used as generated when
    the read produced exactly one chunk, otherwise variable indices are shifted so that v0..v{c-1} are the chunks and
    an initial concat-all op provides the whole table"""
    c = len(chunk_rows)
    if c == 1:
        return list(ops)
    pre = []
    # v_c = concat(v0, v1), v_{c+1} = concat(v_c, v2) ...
    cur = 0
    for j in range(1, c):
        pre.append({"op": "concat", "srcs": [cur, j]})
        cur = c + j - 1
    whole = cur
    shift = c + (c - 1) - 1          # generated variable i>0 -> i + shift ; variable 0 -> whole

    def m(i):
        return whole if i == 0 else i + shift
    out = list(pre)
    for op in ops:
        o = dict(op)
        if "src" in o:
            o["src"] = m(o["src"])
        if "srcs" in o:
            o["srcs"] = [m(x) for x in o["srcs"]]
        out.append(o)
    # also exercise the individual chunks: select on each chunk and write it
    return out


def check_written(ctx, f, mvar, out, op_desc, detail):
    fmt = f.fmt
    if mvar.selection_only:
        header = f.data[:f.header_len]
        body = b"".join(L.source_span(f, rec) for rec, _ in mvar.rows)
        ok = out == body or (header and out == header + body)
        ctx.state(fmt.name, f.style["crlf"], "clause1", op_desc)
        if not ok:
            d = dict(detail)
            d.update({"clause": 1, "expected": core.esc(body[:400]), "got": core.esc(out[:400]),
                      "header_len": len(header)})
            kind = "bytes"
            if header and out.count(header) > 1:
                kind = "header_twice"
            raise Violation("write_back_exact", f"{fmt.name}.{kind}", d)
        return
    # clause 2
    ctx.state(fmt.name, f.style["crlf"], "clause2", op_desc)
    hmark = {"vcf": b"#", "vcfinfo": b"#", "vcfgt": b"#", "sam": b"@"}.get(fmt.header or "")
    body = out
    if hmark:
        pos = 0
        while body[pos:pos + 1] == hmark:
            nl = body.find(b"\n", pos)
            pos = len(body) if nl < 0 else nl + 1
        body = body[pos:]
    style = {"crlf": True}    # line terminators are not compared in clause 2: a trailing CR is stripped per line
    vbody = body
    res = T.validate(fmt, vbody, style, lenient_extra=True)
    exp = L.expected_rows(f, mvar)
    d = dict(detail)
    d.update({"clause": 2, "got": core.esc(out[:500])})
    if res[0] != "ok":
        d.update({"line": res[1], "reason": res[2]})
        raise Violation("write_back_fields", f"{fmt.name}.malformed_output", d)
    got = res[1]
    if len(got) != len(exp):
        d.update({"expected_records": len(exp), "got_records": len(got)})
        raise Violation("write_back_fields", f"{fmt.name}.record_count", d)
    for i, (g, e) in enumerate(zip(got, exp)):
        over = mvar.rows[i][1]
        for fname, kind in fmt.fields:
            et, gt = e["texts"][fname], g["texts"].get(fname)
            if fname in mvar.replaced_cols and gt is not None:
                # a replaced column: new values in canonical text; rows of operands where it was not replaced may be
                # re-serialised too ("only the replaced columns change") -> compared by value
                try:
                    if kind == "float":
                        ok = core.same(float(et), float(gt), rel=1e-6, abs_=1e-9)
                    elif kind in ("int", "sint", "pos1", "optint"):
                        ok = int(et) == int(gt) and (fname not in over or et == gt)
                    else:
                        ok = et == gt
                except ValueError:
                    ok = False
            else:
                ok = et == gt
            if not ok:
                d.update({"record": i, "field": fname, "expected": et, "got_text": gt, "replaced": fname in over})
                raise Violation("write_back_fields", f"{fmt.name}.{fname}", d)


def op_kinds(ops):
    return [o["op"] for o in ops]


def execute(ctx, sc, lazy_mode="lazy"):
    f = _c01.File(sc["file"])
    fmt = f.fmt
    w = L.World(f, f.spec.lazy if lazy_mode == "lazy" else False, sc["chunk_k"])
    with simfs.Mount(w.fs), core.quiet():
        e = w.start()
    if e is not None:
        raise Inconclusive("source read raises: " + e.type)
    chunk_rows = w.chunk_rows
    if sum(chunk_rows) != len(f.records):
        raise Inconclusive("chunked read lost or duplicated entries (C01's business)")
    ops = fit_program(sc["ops"], chunk_rows)
    mv = L.model_vars(chunk_rows, ops)
    # a fresh world for the real run
    w = L.World(f, w.lazy, sc["chunk_k"])
    err = w.run(ops)
    if err is not None:
        raise Inconclusive("source read raises: " + err.type)
    kinds = op_kinds(ops)
    detail0 = {"file": f.brief(), "chunk_k": sc["chunk_k"], "chunk_rows": chunk_rows, "ops": ops[:20]}
    if len(chunk_rows) > 1:
        ctx.probe("chunked_origin")
    if f.style["crlf"]:
        ctx.probe("crlf_source")
    vi = len(chunk_rows)
    for j, op in enumerate(ops):
        ctx.steps += 1
        r = w.results[j]
        creates = op["op"] in ("sel", "concat", "replace")
        gram = "-".join(kinds[max(0, j - 2):j + 1])
        if raised(r):
            if r.type == "ProgressBudgetExceeded":
                raise Violation("progress", "event_budget", detail0)
            if op["op"] in ("get", "len", "tolist", "item"):
                ctx.probe("observation_raises_not_judged_here")   # lazy/eager agreement of observations is C05's subject
                continue
            d = dict(detail0, step=j, op=op, error=repr(r))
            raise Violation("operation_raises", f"{fmt.name}.{op['op']}", d)
        if creates:
            vi += 1
        if op["op"] == "write":
            ctx.evals += 1
            mv_now = L.model_vars(chunk_rows, ops, upto=j)      # attribute assignment changes a variable in place
            check_written(ctx, f, mv_now[op["src"]], core.unesc(r), gram, dict(detail0, step=j, op=op))
        if op["op"] == "setattr":
            ctx.probe("attribute_assignment")
        if op["op"] == "replace":
            ctx.probe("replace_" + dict(fmt.fields)[op["field"]])
        if op["op"] == "sel" and op["idx"]["kind"] == "ints":
            vals = op["idx"]["vals"]
            if len(set(vals)) < len(vals):
                ctx.probe("index_with_repeats")
            if any(v < 0 for v in vals):
                ctx.probe("negative_index")
        if op["op"] == "concat":
            ctx.probe("concatenate")
    # final sweep: write every variable once more at the end of the history
    with simfs.Mount(w.fs), core.quiet():
        for i, v in enumerate(w.vars):
            if raised(v):
                continue
            out = w.write_bytes(v)
            ctx.evals += 1
            if raised(out):
                raise Violation("operation_raises", f"{fmt.name}.final_write", dict(detail0, var=i, error=repr(out)))
            check_written(ctx, f, mv[i], out, "final", dict(detail0, var=i, at="final"))
    ctx.io_events += w.fs.seq
    ctx.note("C04", fmt.name, kinds, w.fs.seq)
