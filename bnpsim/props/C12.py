"""C12 — per-chromosome streaming never silently drops or misattributes entries  (streamsim / syncsim)

One run = one genome (<= 4 contigs) x one or two sequences of contig groups x one chunking x one consumer.
Oracle (conservation, exactly the statement): when the evaluation COMPLETES, every contig of the genome, in genome
order, received exactly the entries carrying its name (empty table for contigs without data; ignored names dropped);
data whose contig order is incompatible with the genome order, or that names a contig that is neither in the genome
nor ignored, must make the evaluation raise.  An exception for such data is always fine.  Shapes where the CALLER
stops pulling (own zip, early break) are generated as reach probes only.
"""
import hashlib

from .. import core, simfs
from ..core import Violation, Inconclusive, raised
from ..engines import syncsim as S

ID = "C12"
LEVEL = "exploration"
ENGINE = "syncsim"
RULE = ("one evaluation = one consumer (bnp.compute single/tuple/dict of genome.get_intervals/read_intervals/get_track/"
        "read_track(stream=True) pipelines, exhaustive for loop, writer.write, MultiStream attributes to exhaustion, "
        "forbes/jaccard, left_join) run on a generated genome of <= 4 contigs (prefix-related names, '_' names, "
        "Genome.from_file / from_dict / with_ignored_added, dict or ChromosomeSize for MultiStream) and one or two "
        "sequences of contig groups (any subset, any order, unknown and ignored names, every name one contiguous group) "
        "cut into chunks (all cut sets swept for <= 7 (thorough: 9) entries in sweep runs); judged by conservation: completes => every "
        "contig got exactly its entries, in genome order; incompatible order / unknown name => must raise. Non-trivial = "
        "the data is not simply 'all contigs in genome order in one chunk'; distinct = distinct tuples (consumer, source "
        "kinds, genome mode, order class of each stream incl. early/late position of the first offending group, chunking "
        "class, PYTHONHASHSEED class)")
BUDGET = {"quick": (30000, 40), "thorough": (500000, 900)}
ASSUMPTIONS = ["the genome's order is the key order of the dict / chrom.sizes file (sorted when sort_names=True); ignored "
               "names are the genome's '_' names under the ignore_underscores filter plus the names given to with_ignored_added",
               "MultiStream / left_join have no ignored names: every name outside the contig list is unknown",
               "an exception is acceptable for incompatible data whatever its type (AssertionError of left_join included)"]


def HASHSEEDS(seed):
    """PYTHONHASHSEED is a sampled configuration of this property: 0 and three values derived from VERIF_SEED"""
    out = [0]
    for i in range(3):
        h = hashlib.sha256(f"{seed}/C12/hashseed/{i}".encode()).digest()
        out.append(1 + int.from_bytes(h[:4], "big") % 4294967294)
    return out


CONSUMER_WEIGHTS = [(3, "compute_gi"), (2, "compute_tuple"), (2, "compute_dict"), (2, "for_iter"), (2, "mask_sum"),
                    (2, "pileup_data"), (3, "two_tuple"), (2, "pileup_index"), (2, "pileup_index_memory"), (2, "pileup_index_other_genome_order"), (2, "track_data"), (2, "track_sum"),
                    (3, "ms_exhaust"), (2, "ms_with_dict"), (3, "forbes"), (2, "jaccard"), (2, "ms_write"), (2, "left_join"),
                    (1, "caller_zip"), (1, "early_break")]
SCHEDS = [(3, "fixed"), (1, "sweep")]
SWEEP_MAX_ENTRIES = {"quick": 7, "thorough": 9}

# shapes for which an exception on COMPATIBLE data is a violation of "each contig receives exactly the entries carrying
# its name and contigs without data receive an empty table": the entry tables themselves are what is asked for
STRICT_ON_RAISE = ("compute_gi", "compute_tuple", "compute_dict", "for_iter", "ms_exhaust", "ms_write", "left_join", "two_tuple")


def reproducer(env, cons):
    """stand-alone public-API script text for the scenario (best effort; for the replay file only)"""
    g = env.g
    L = ["import bionumpy as bnp", "from bionumpy.datatypes import Interval, BedGraph, ChromosomeSize",
         "from bionumpy.streams import NpDataclassStream, MultiStream"]
    sizes = "{" + ", ".join(f"{n!r}: {g.sizes[n]}" for n in (g.keys if g.family == "contiglist" else g.names)) + "}"
    if g.family == "genome":
        if g.mode == "file":
            L.append(f"open('genome.chrom.sizes', 'w').write({g.chrom_sizes_bytes().decode()!r})")
            L.append(f"genome = bnp.Genome.from_file('genome.chrom.sizes', sort_names={g.sort_names})")
        elif g.mode == "dict_keepall":
            L.append(f"genome = bnp.Genome.from_dict({sizes}, sort_names={g.sort_names})")
        else:
            L.append("from bionumpy.genomic_data.genome_context import ignore_underscores")
            L.append(f"genome = bnp.Genome.from_dict({sizes}, sort_names={g.sort_names}, filter_function=ignore_underscores)")
        if g.extra_ignored:
            L.append(f"genome = genome.with_ignored_added({g.extra_ignored!r})")
    else:
        L.append(f"sizes = {sizes}" if g.sizes_as == "dict" else
                 f"sizes = ChromosomeSize({list(g.keys)!r}, {[g.sizes[n] for n in g.keys]!r})")
    for i, s in enumerate(env.sources):
        v = "ab"[i]
        cls = "Interval" if s.d.kind == "interval" else "BedGraph"

        def tab(es):
            cols = [[e[j] for e in es] for j in range(3 if s.d.kind == "interval" else 4)]
            return f"{cls}(" + ", ".join(repr(c) for c in cols) + ")"
        if s.how == "file":
            L.append(f"open('{v}.{'bed' if s.d.kind == 'interval' else 'bdg'}', 'w').write({s.d.bed_bytes().decode()!r})  # read with chunk size {s.k}")
        elif s.how == "table":
            L.append(f"{v} = {tab(s.d.entries)}")
        else:
            L.append(f"{v} = NpDataclassStream(iter([" + ", ".join(tab(c) for c in s.d.chunks()) + f"]), dataclass={cls})")
    L.append(f"# consumer: {cons.name} {env.opts if env.opts else ''}  (see bnpsim/engines/syncsim.py class of that name)")
    return "\n".join(L)


def make_detail(env, cons, verdicts, extra=None):
    d = {"consumer": cons.name, "genome": env.g.describe(),
         "streams": {"ab"[i]: dict(s.describe(), order_class=v.order_class()) for i, (s, v) in enumerate(zip(env.sources, verdicts))},
         "options": {k: v for k, v in env.opts.items() if k != "reference"},
         "hashseed": S.hashseed_class(), "reproducer": reproducer(env, cons)}
    if extra:
        d.update(extra)
    return d


def evaluate(ctx, cons, g, sources, opts):
    """one evaluation on fresh simulated storage; raises Violation / returns ("ok"|"inconclusive", reason)"""
    fs = simfs.SimFS()
    for s in sources:
        s.install(fs)
    verdicts = [S.Verdict(g, s.d) for s in sources]
    compatible = all(v.compatible for v in verdicts)
    env = S.Env(g, None, sources, fs, dict(opts))
    ctx.evals += 1
    ctx.steps += 1 + sum(len(s.d.chunks()) for s in sources)
    with simfs.Mount(fs), core.quiet(), core.chunk_knob(env.knob()):
        env.G = S.build_genome(g, fs)
        if raised(env.G):
            return "inconclusive", "genome construction raises: " + env.G.type
        if compatible and cons.judged:
            ref = cons.reference(env)
            if raised(ref):
                return "inconclusive", f"reference route of {cons.name} raises: {ref.type}"
            env.opts["reference"] = ref
        raw = core.call(cons.run, env)
    ctx.io_events += fs.seq
    # the violation kind names the consumer and, for the input region of a separately recorded finding, that region,
    # so that shrinking cannot drift from one finding into another
    region = "@underscore_keepall" if (g.family == "genome" and g.mode == "dict_keepall" and any("_" in n for n in g.names)) else ""
    ctx.state(cons.name, "+".join(s.how for s in sources), g.mode, g.sizes_as, "/".join(v.order_class() for v in verdicts),
              "/".join(s.d.chunk_class() for s in sources), S.hashseed_class())
    if not cons.judged:
        if not compatible and not raised(raw):
            ctx.probe("unjudged_caller_stopped_silent")
        return "ok", None
    if raised(raw):
        if not compatible:
            ctx.probe("raised_on_incompatible")
            return "ok", None
        ctx.probe("raised_on_compatible")
        if cons.name in STRICT_ON_RAISE:
            raise Violation("conservation", "raises_on_compatible:" + cons.name + region,
                            make_detail(env, cons, verdicts, {"error": repr(raw)}))
        return "inconclusive", f"{cons.name} raises on compatible data: {raw.type}"
    if not compatible:
        bad = [v for v in verdicts if not v.compatible][0]
        raise Violation("conservation", f"completes_{bad.why}:{cons.name}{region}",
                        make_detail(env, cons, verdicts, {"result": core.short(core.plain(raw), 600),
                                                          "expected": "an exception: " + bad.why}))
    ctx.probe("completed_compatible")
    diff = cons.check(env, raw)
    if diff is not None:
        raise Violation("conservation", "wrong_delivery:" + cons.name + region,
                        make_detail(env, cons, verdicts, {"difference": diff, "result": core.short(core.plain(raw), 600)}))
    return "ok", None


def generate(ctx):
    """every decision of one run, drawn from the tape -> JSON-able scenario (the replay file stores it literally)"""
    tape = ctx.tape
    thorough = ctx.tier == "thorough"
    m = 4 if thorough else 3
    cons = S.BY_NAME[tape.weighted(CONSUMER_WEIGHTS, "consumer")]
    g = S.gen_genome(tape, cons.family,
                     # FX-C12-underscore-keepall is fixed in /repo: no exclusion left
                     allow_underscore_keepall=True)
    sources = []
    for i in range(cons.nstreams):
        tag = "ab"[i]
        d = S.gen_data(tape, g, cons.kind, m, tag + ".")
        how = cons.hows[tape.draw(len(cons.hows), tag + ".how")]
        if how in ("table", "table_strkey") and (not d.entries or (how == "table_strkey" and cons.kind != "interval")):
            how = "stream"
        k = S.file_k(tape, d, tag + ".")
        if False and cons.vulnerable == i:   # FX-C12-trailing-check-unreached is fixed in /repo: exclusion switched off
            # KF-C12-trailing-check-unreached: the first offending group directly follows the group of the genome's
            # last contig, and this stream is not the first one the library pulls: the data is cut before that group
            v = S.Verdict(g, d)
            if v.late_bad:
                d = d.truncated(v.first_bad_group)
        sources.append(S.Source(d, how, k if how == "file" else None, tag))
    opts = {}
    if cons.name == "ms_exhaust":
        opts["pull"] = tape.choice(["ab", "ba", "alternate"], "pull")
    sched = tape.weighted(SCHEDS, "sched")
    verdicts = [S.Verdict(g, s.d) for s in sources]
    # generator decisions only (order_class is a pure function of genome + groups; kept here for finding matchers)
    return {"consumer": cons.name, "genome": g.describe(),
            "streams": [dict(s.describe(), order_class=v.order_class()) for s, v in zip(sources, verdicts)],
            "not_first_pulled_stream": cons.vulnerable, "judged": cons.judged, "options": opts, "schedule": sched}


def execute(ctx, sc):
    """run a scenario (tape-free)"""
    cons = S.BY_NAME[sc["consumer"]]
    g = S.GenomeSpec.from_description(sc["genome"])
    sources = [S.Source(S.DataSpec.from_description(x), x["how"], x["k"], "ab"[i]) for i, x in enumerate(sc["streams"])]
    opts = dict(sc.get("options") or {})
    sched = sc.get("schedule", "fixed")
    verdicts = [S.Verdict(g, s.d) for s in sources]
    if S.hashseed_class() != "hs0":
        ctx.fault("hashseed_nonzero")
    ctx.probe("consumer_" + cons.name)
    for s, v in zip(sources, verdicts):
        if not v.order_ok:
            ctx.probe("order_disagrees")
        if v.unknown:
            ctx.probe("unknown_contig")
            if v.unknown_trailing:
                ctx.probe("unknown_trailing")
            if v.unknown_leading:
                ctx.probe("unknown_leading")
        if v.late_bad:
            ctx.probe("first_offender_after_last_contig")
        if v.ignored_present:
            ctx.probe("ignored_contig")
        if v.empty_contigs:
            ctx.probe("empty_contig")
        if not s.d.entries:
            ctx.probe("no_data_at_all")
        if s.d.chunk_class() in ("inside", "inside+boundary", "all_singletons"):
            ctx.probe("cut_inside_group")
        if s.d.chunk_class() in ("boundary_only", "inside+boundary", "all_singletons"):
            ctx.probe("cut_at_group_boundary")
        if s.how == "file":
            ctx.probe("source_file")
        if s.how == "table":
            ctx.probe("source_table")
    if S.has_prefix_pair(g.names + [n for s in sources for n in s.d.names]):
        ctx.probe("prefix_names")
    if g.ignored:
        ctx.probe("genome_with_ignored_names")
    if g.mode == "dict_keepall" and any("_" in n for n in g.names):
        ctx.probe("keepall_genome_with_underscore_name")
    if g.sort_names:
        ctx.probe("sort_names")
    if len(g.keys) <= 3 and not any(v.unknown or v.ignored_present for v in verdicts[:1]):
        # coverage of "all subsets in all orders" for <= 3 contigs (first stream, genome names only)
        ctx.probe(f"seq{len(g.keys)}:" + ("-".join(str(g.keys.index(n)) for n in sources[0].d.names) or "none"))

    inconclusive = None
    a = sources[0]
    n_a = len(a.d.entries)
    if sched == "sweep" and a.how == "stream" and 2 <= n_a <= SWEEP_MAX_ENTRIES[ctx.tier if ctx.tier in SWEEP_MAX_ENTRIES else "quick"]:
        ctx.probe("sweep_all_cut_sets")
        for mask in range(1 << (n_a - 1)):
            srcs = [S.Source(a.d.with_cuts(mask), a.how, a.k, a.tag)] + sources[1:]
            try:
                st, why = evaluate(ctx, cons, g, srcs, opts)
            except Violation as v:
                v.rewrite = {"sched": 0, "a.cuts": mask}     # re-expressed on the tape as schedule=fixed with this cut set
                raise
            if st == "inconclusive":
                inconclusive = why
    else:
        st, why = evaluate(ctx, cons, g, sources, opts)
        if st == "inconclusive":
            inconclusive = why
    ctx.note("C12", cons.name, g.mode, [v.order_class() for v in verdicts], [s.d.chunk_class() for s in sources],
             ctx.evals, inconclusive)
    if inconclusive:
        raise Inconclusive(inconclusive)


def run(ctx):
    """README_DEV contract; the runner prefers generate/execute (literal replay of the stored scenario)"""
    sc = generate(ctx)
    ctx.scenario = sc
    execute(ctx, sc)
