"""C05 — lazy and eager reading are observationally equivalent  (lazysim, twin mode)

The same operation history is run in lock-step on a lazily and an eagerly read twin of the same file (same
chunk cut points).  After every step: equal values / equal written bytes, or both fail.  Sources are canonical
files (what the library's own writer would emit), so that the intended difference "lazy write-back preserves
non-canonical text, eager re-serialises" (C04's subject) cannot show up here.
"""
from .. import core, simfs
from ..core import Violation, Inconclusive, raised
from ..engines import iosim, lazysim as L
from ..models import text as T
from . import C01 as _c01
from . import C04 as _c04

ID = "C05"
LEVEL = "exploration"
ENGINE = "lazysim"
RULE = ("one evaluation = one step of one operation history (len, get field, t[slice|mask|int list], t[i], concatenate, "
        "replace, tolist, write; <= 12 ops) compared between the lazily and the eagerly read twin of a canonical generated "
        "file, plus a final observation (len, all fields, written bytes) of every variable. Non-trivial = history with "
        ">= 2 ops; distinct = distinct tuples (format, chunked origin, op-kind 3-gram, outcome both-ok / both-fail)")
BUDGET = {"quick": (5000, 40), "thorough": (80000, 900)}

FORMAT_WEIGHTS = [(3, "bed3"), (3, "bed6"), (2, "narrowpeak"), (2, "bdg"), (3, "fastq"), (2, "fasta2"), (2, "vcf"),
                  (2, "sam"), (2, "bed12"), (2, "vcfinfo"), (2, "vcfgt")]


BAM_FIELDS = ["chromosome", "name", "flag", "position", "mapq", "cigar_op", "cigar_length", "sequence", "quality"]


def generate_bam(ctx):
    """BAM twin scenario: the file comes from the independent BAM model of C16"""
    from . import C16 as _c16
    tape = ctx.tape
    f = _c16.File(ctx, ctx.tier == "thorough")
    n = len(f.records)
    idx = L.gen_index(tape, n, "bam.idx")
    # a selection of the selection in a third of the runs (a plain slice across a gap left by a mask, a mask of a permutation, ...)
    idx2 = L.gen_index(tape, len(L.norm_index(idx, n)), "bam.idx2") if tape.boolean("bam.two_step", 1, 3) else None
    pre = [BAM_FIELDS[tape.draw(len(BAM_FIELDS), "bam.pre")] for _ in range(tape.draw(3, "bam.npre"))]
    post = [BAM_FIELDS[tape.draw(len(BAM_FIELDS), "bam.post")] for _ in range(1 + tape.draw(3, "bam.npost"))]
    # KF-C05-bam-eager-write-unsupported: an eagerly read BAM table cannot be written (no header context, no from_data),
    # the lazily read one can; the write step is generated in 10 % of the runs only
    do_write = (not ctx.excl) and tape.boolean("bam.write", 2, 3)
    return {"kind": "bam", "bam": core.esc(f.data), "n_records": n, "idx": idx, "idx2": idx2, "pre": pre, "post": post, "write": do_write,
            "records": f.describe() if hasattr(f, "describe") else None}


def execute_bam(ctx, sc):
    import numpy as np
    from . import C16 as _c16
    b = core.bnp()
    fs = simfs.SimFS()
    fs.put("/sim/x.bam", core.unesc(sc["bam"]))
    idx = sc["idx"]
    detail0 = {"kind": "bam", "n_records": sc["n_records"], "idx": idx, "idx2": sc.get("idx2"), "pre": sc["pre"], "post": sc["post"], "write": sc["write"]}

    def key(idx=idx):
        if idx["kind"] == "slice":
            return slice(idx["a"], idx["b"], idx["c"])
        if idx["kind"] == "mask":
            return np.array(idx["bits"], dtype=bool)
        return list(idx["vals"])

    worlds = {}
    with simfs.Mount(fs), core.quiet():
        for mode, lazy in (("lazy", True), ("eager", False)):
            t = core.call(lambda: b.open("/sim/x.bam", lazy=lazy).read())
            worlds[mode] = {"t": t, "trace": []}
        tl, te = worlds["lazy"]["t"], worlds["eager"]["t"]
        if raised(tl) and raised(te):
            raise Inconclusive("both source reads raise")
        if raised(tl) != raised(te):
            raise Violation("twin", "bam.read.one_fails", dict(detail0, lazy_result=repr(tl)[:200], eager_result=repr(te)[:200]))
        steps = [("sel", idx)] + ([("sel", sc["idx2"])] if sc.get("idx2") else []) + [("get", f) for f in sc["pre"]] + ([("write", None)] if sc["write"] else []) + \
                [("get", f) for f in sc["post"]] + [("all", None)]
        cur = {"lazy": tl, "eager": te}
        for j, (op, arg) in enumerate(steps):
            ctx.steps += 1
            ctx.evals += 1
            res = {}
            for mode in ("lazy", "eager"):
                v = cur[mode]
                if op == "sel":
                    r = core.call(lambda: v[key(arg)])
                    if not raised(r):
                        cur[mode] = r
                        r = core.call(len, r)
                elif op == "get":
                    r = core.call(lambda: core.plain(getattr(v, arg)))
                elif op == "write":
                    out = f"/sim/{mode}.bam"

                    def w():
                        with b.open(out, "w") as wr:
                            wr.write(v)
                        return core.esc(fs.files[out])
                    r = core.call(w)
                else:
                    r = _c16.render(v, BAM_FIELDS)
                res[mode] = r
            rl, re_ = res["lazy"], res["eager"]
            ctx.state("bam", op, arg["kind"] if isinstance(arg, dict) else arg, raised(rl), raised(re_))
            d = dict(detail0, step=j, op=[op, arg], lazy_result=core.short(render(rl), 300), eager_result=core.short(render(re_), 300))
            if raised(rl) and raised(re_):
                ctx.probe("both_fail_bam_" + op)
                if op == "sel":
                    break
                continue
            if raised(rl) != raised(re_):
                raise Violation("twin", f"bam.{op}.one_fails", d)
            if op == "write":
                # gzip member headers carry a wall-clock mtime: compare the decompressed streams
                import gzip as _gz
                a, c = core.call(lambda: _gz.decompress(core.unesc(rl))), core.call(lambda: _gz.decompress(core.unesc(re_)))
                if raised(a) or raised(c) or a != c:
                    raise Violation("twin", "bam.write.differs", d)
            elif not core.same(rl, re_):
                raise Violation("twin", f"bam.{op}.differs", d)
    ctx.probe("bam_twin")
    if sc.get("idx2"):
        ctx.probe("bam_twin_selection_of_a_selection")
    ctx.io_events += fs.seq
    ctx.note("C05", "bam", sc["idx"]["kind"], sc["pre"], sc["post"], sc["write"])


def generate(ctx):
    tape = ctx.tape
    thorough = ctx.tier == "thorough"
    if tape.boolean("bam_scenario", 1, 6):
        return generate_bam(ctx)
    fd = _c01.gen_file(ctx, "", 8 if thorough else 5, format_weights=FORMAT_WEIGHTS, allow_gzip=False,
                       lazy_choices=(True,), canonical=True)
    fd["route"] = "path"
    chunked = tape.boolean("chunked", 1, 3)
    k = (1 + tape.draw(fd["size"] + 2, "chunk_k")) if chunked else None
    # KF-C05-lazy-single-index: t[i] on a lazily read table raises TypeError inside npstructures (int() of a size-1
    # array under numpy 2) while the eager table works; single-index ops are generated in 10 % of the runs only
    # KF-C05-typed-info-eager-write-unsupported: an eagerly read VCF with typed INFO cannot be written (KeyError for the
    # INFO table type) while the lazily read twin writes its source bytes; writes of such tables are generated and
    # observed in 1/10 of the runs only
    no_write = ctx.excl and fd["format"] == "vcfinfo"
    ops = L.gen_program(ctx, fd, [fd["n_records"]], 12 if thorough else 8, allow_item=not ctx.excl, allow_write=not no_write,
                         allow_other_target=True)
    return {"file": fd, "chunk_k": k, "ops": ops, "observe_write": not no_write}


def render(x):
    if raised(x):
        return "Raised:" + x.type
    return x


def execute(ctx, sc):
    if sc.get("kind") == "bam":
        return execute_bam(ctx, sc)
    f = _c01.File(sc["file"])
    fmt = f.fmt
    probe = L.World(f, False, sc["chunk_k"])
    with simfs.Mount(probe.fs), core.quiet():
        e = probe.start()
    if e is not None:
        raise Inconclusive("eager source read raises: " + e.type)
    chunk_rows = probe.chunk_rows
    ops = _c04.fit_program(sc["ops"], chunk_rows)
    wl = L.World(f, True, sc["chunk_k"], out_tag="l")
    we = L.World(f, False, sc["chunk_k"], out_tag="e")
    el, ee = wl.run(ops), we.run(ops)
    detail0 = {"file": f.brief(), "chunk_k": sc["chunk_k"], "chunk_rows": chunk_rows, "ops": ops[:20]}
    if (el is None) != (ee is None):
        raise Violation("twin", f"{fmt.name}.read_one_fails", dict(detail0, lazy=repr(el), eager=repr(ee)))
    if el is not None:
        raise Inconclusive("both source reads raise")
    if wl.chunk_rows != we.chunk_rows:
        raise Violation("twin", f"{fmt.name}.chunking_differs", dict(detail0, lazy=wl.chunk_rows, eager=we.chunk_rows))
    kinds = [o["op"] for o in ops]
    if len(chunk_rows) > 1:
        ctx.probe("chunked_origin")
    for j, op in enumerate(ops):
        ctx.steps += 1
        ctx.evals += 1
        rl, re_ = wl.results[j], we.results[j]
        gram = "-".join(kinds[max(0, j - 2):j + 1])
        if raised(rl) and raised(re_):
            ctx.state(fmt.name, len(chunk_rows) > 1, gram, "both_fail")
            ctx.probe("both_fail_" + op["op"])
            continue
        d = dict(detail0, step=j, op=op, lazy_result=core.short(render(rl), 300), eager_result=core.short(render(re_), 300))
        if raised(rl) != raised(re_):
            raise Violation("twin", f"{fmt.name}.{op['op']}.one_fails", d)
        ctx.state(fmt.name, len(chunk_rows) > 1, gram, "both_ok")
        if not core.same(rl, re_):
            raise Violation("twin", f"{fmt.name}.{op['op']}.differs", d)
    # final observation of every variable in both worlds
    ow = sc.get("observe_write", True)
    with simfs.Mount(wl.fs), core.quiet():
        obs_l = [None if raised(v) else wl.observe(v, with_write=ow) for v in wl.vars]
    with simfs.Mount(we.fs), core.quiet():
        obs_e = [None if raised(v) else we.observe(v, with_write=ow) for v in we.vars]
    for i, (a, b) in enumerate(zip(obs_l, obs_e)):
        ctx.evals += 1
        if a is None and b is None:
            continue
        d = dict(detail0, var=i, what="final observation")
        if (a is None) != (b is None):
            raise Violation("twin", f"{fmt.name}.var.one_fails", dict(d, lazy_result=core.short(a, 300), eager_result=core.short(b, 300)))
        for key in ("len", "rows", "tolist", "write"):
            if key not in a and key not in b:
                continue
            if not core.same(a.get(key), b.get(key)):
                raise Violation("twin", f"{fmt.name}.final_{key}.differs",
                                dict(d, lazy_result=core.short(a.get(key), 400), eager_result=core.short(b.get(key), 400)))
    ctx.io_events += wl.fs.seq + we.fs.seq
    ctx.note("C05", fmt.name, kinds, wl.fs.seq, we.fs.seq)
