"""C17 — indexed FASTA random access agrees with the file  (iosim)

One run = one generated FASTA on simulated storage, opened through `bnp.open_indexed` (or through
`bnp.Genome.from_file(...).read_sequence()`), with the index either built by the library (no .fai present,
small chunk-size knob so that `create_index` accumulates offsets over several chunks) or supplied faidx-style
by the model.  Judged against models/fai.py: the written .fai row by row, `get_contig_lengths()`, whole-contig
fetches, interval fetches (plain path and string-encoded fast path; every interval of every record of length
<= 20, sampled and biased to line breaks above).
"""
from .. import core, simfs
from ..core import Violation, Inconclusive, raised
from ..models import fai as F

ID = "C17"
LEVEL = "exploration"
ENGINE = "iosim"
RULE = ("one evaluation = one compared value: an index row of the library-written .fai, one whole-contig fetch, one "
        "fetched interval (batches of intervals are one call, every interval of the batch is compared), or the contig-length "
        "report, each against the faidx model of a generated FASTA (1..N records, per-record wrap width, short/full/one-base "
        "last line, single-line records, names with descriptions, LF; CRLF and a missing final newline at low weight). "
        "All intervals [a,b) of records of length <= 20 are enumerated, longer records are sampled with end points on, just "
        "before and just after line breaks. A case is non-trivial if the record has more than one line; distinct = distinct "
        "tuples (index source, route, plain/fast path, width class, position class of a and of b relative to line breaks, "
        "number of line breaks spanned, last-line class, CRLF, final newline, fault)")
BUDGET = {"quick": (12000, 40), "thorough": (200000, 900)}

PATH = "/sim/g.fa"
FAI = PATH + ".fai"
ENUM_MAX_LEN = 20
MAX_BATCHES = 6
MAX_BATCH_INTERVALS = 12


# ---------------------------------------------------------------------------------------------
# storage: SimFS with two pieces of the CPython file contract that open_indexed relies on
#   * readinto() accepts any writable buffer (IndexedFasta.__getitem__ passes a numpy array)
#   * `bnp_open(fai, "w").write(index)` never closes its file: CPython closes (hence flushes) the file object
#     when the temporary writer is finalised, i.e. before the next statement opens the .fai for reading.
#     Modelled as write-through durability (data visible to a later open as soon as write() returns).

class _Handle(simfs.SimHandle):
    def readinto(self, b):
        data = self.read(len(b))
        memoryview(b).cast("B")[:len(data)] = data
        return len(data)

    def write(self, data):
        n = super().write(data)
        self.fs.files[self.name] = bytes(self._buf)
        return n


class _FS(simfs.SimFS):
    def open(self, path, mode="r", *args, **kwargs):
        h = super().open(path, mode, *args, **kwargs)
        if type(h) is simfs.SimHandle:
            h.__class__ = _Handle
        return h


# ---------------------------------------------------------------------------------------------
# helpers

def _text(x):
    """whole-contig value -> str when it renders as a list of symbols"""
    p = core.plain(x)
    if isinstance(p, list) and all(isinstance(c, str) for c in p):
        return "".join(p)
    return p


def _width_class(w):
    return "1" if w == 1 else ("2-12" if w <= 12 else ("80" if w == 80 else "13+"))


def _last_line_class(n, w):
    if n <= w:
        return "single"
    r = n % w
    return "full" if r == 0 else ("one" if r == 1 else "short")


def trigger_tag(spec, i, a, b):
    """style-specific regions outside the literal quantifier of the property (kept as separate violation classes)"""
    rec = spec["records"][i]
    n = len(rec["seq"])
    w = min(n, rec["width"])         # bases per line as the index states it (a single-line record: its length)
    if spec["crlf"] and (a // w != (b - 1) // w or b % w == 0):
        return "crlf_break"          # the fetched byte range contains a CRLF line break
    if not spec["final_newline"] and i == len(spec["records"]) - 1 and b == n and n % w == 0:
        return "nonl_end"            # interval ends at the end of a file that has no final newline
    return None


def describe(spec, data):
    return {"fasta": core.esc(data), "size": len(data), "crlf": spec["crlf"], "final_newline": spec["final_newline"],
            "records": [{"name": r["name"], "desc": r["desc"], "len": len(r["seq"]), "width": r["width"]}
                        for r in spec["records"]]}


def _repro(data, route, call_text):
    head = f"open('g.fa','wb').write({data!r}); import bionumpy as bnp; from bionumpy.datatypes import Interval; "
    if route is None:
        return head + call_text
    if route == "genome":
        return head + "g = bnp.Genome.from_file('g.fa'); seq = g.read_sequence(); " + call_text
    return head + "idx = bnp.open_indexed('g.fa'); " + call_text


# ---------------------------------------------------------------------------------------------
# plan (all generator decisions are taken before anything is executed)

def plan_ops(ctx, spec, route):
    tape = ctx.tape
    recs = spec["records"]
    excl = False   # the four C17 findings are fixed in /repo (see known_findings.json): no generator exclusion left
    ops = []

    def keep(i, a, b):
        # KF candidates (narrow trigger regions, excluded in 90 % of runs):
        #   C17-crlf-intervals: get_interval_sequences removes one byte per line break, CRLF has two
        #   C17-nonl-interval-end: interval ending at the end of a file without final newline, full last line
        return not (excl and trigger_tag(spec, i, a, b) is not None)

    for i in range(len(recs)):
        ops.append({"op": "whole", "rec": i})
    for i, r in enumerate(recs):
        n = len(r["seq"])
        if n <= ENUM_MAX_LEN:
            path = tape.weighted([(2, "plain"), (2, "fast"), (1, "both")], "enum.path")
            ivs = [(i, a, b) for a, b in F.all_intervals(n) if keep(i, a, b)]
            for p in (["plain", "fast"] if path == "both" else [path]):
                if ivs:
                    ops.append({"op": "all", "rec": i, "path": p, "labels": "file", "ivs": ivs, "n": len(ivs)})
    nb = 0
    while nb < MAX_BATCHES and tape.more("batch", 3, 4):
        nb += 1
        path = tape.choice(["plain", "fast"], "batch.path")
        labels = tape.weighted([(2, "file"), (1, "reversed"), (1, "used")], "batch.labels")
        ivs = []
        while True:
            i = tape.draw(len(recs), "iv.rec")
            a, b = F.gen_interval(tape, len(recs[i]["seq"]), recs[i]["width"], "iv")
            if keep(i, a, b):
                ivs.append((i, a, b))
            if len(ivs) >= MAX_BATCH_INTERVALS or not tape.more("iv.more", 3, 4):
                break
        if ivs:
            ops.append({"op": "batch", "path": path, "labels": labels, "ivs": ivs, "n": len(ivs)})
    if route == "indexed":
        # KF candidate C17-contig-lengths-lenc: get_contig_lengths() reports the line width; only visible when
        # some record has length != bases per line, so the report is not requested for such files in 90 % of runs
        if not (excl and any(len(r["seq"]) > r["width"] for r in recs)):
            ops.append({"op": "lengths"})
    if tape.feature("c17_large_batch") and tape.boolean("bigbatch", 1, 4):
        # one batch of 64 and more intervals over all records in random order (batch-size dependent code paths)
        path = tape.choice(["plain", "fast"], "bigbatch.path")
        ivs = []
        for _ in range(64 + tape.draw(40, "bigbatch.n")):
            i = tape.draw(len(recs), "bigbatch.rec")
            a, b = F.gen_interval(tape, len(recs[i]["seq"]), recs[i]["width"], "bigbatch.iv")
            ivs.append((i, a, b))
        ops.append({"op": "batch", "path": path, "labels": "file", "ivs": ivs, "n": len(ivs)})
        ctx.probe("batch_of_64_or_more_intervals")
    return ops


def render_ops(ops):
    out = []
    for o in ops:
        d = {k: v for k, v in o.items() if k != "ivs"}
        if o["op"] == "batch":
            d["ivs"] = [list(t) for t in o["ivs"]]
        out.append(d)
    return out


# ---------------------------------------------------------------------------------------------
# the run

class _World:
    """what the executing half of a run needs"""

    def __init__(self, ctx, spec, data, rows, fs, source, route, k):
        self.ctx, self.spec, self.data, self.rows, self.fs = ctx, spec, data, rows, fs
        self.source, self.route, self.k = source, route, k
        self.names = [r["name"] for r in spec["records"]]
        self.fault_seen = False

    def call(self, fn, *args):
        """-> (value | Raised, fault fired during this call)"""
        before = sum(self.fs.fault_fired.values())
        r = core.call(fn, *args)
        fired = sum(self.fs.fault_fired.values()) > before
        if fired:
            self.fault_seen = True
            self.ctx.fault("eio_read")
        return r, fired

    def detail(self, **kw):
        d = {"file": describe(self.spec, self.data), "index_source": self.source, "route": self.route, "k": self.k,
             "expected_fai": core.esc(F.render_fai(self.rows))}
        d.update(kw)
        return d


def make_intervals(bnp, w, op):
    """-> the library's Interval table for an op (plain: names as strings; fast: StringEncoding'd names)"""
    from bionumpy.datatypes import Interval
    triples = [(w.names[i], a, b) for i, a, b in op["ivs"]]
    iv = Interval.from_entry_tuples(triples)
    if op["path"] == "fast" and w.route == "indexed":
        from bionumpy.encodings.string_encodings import StringEncoding
        iv = bnp.replace(iv, chromosome=bnp.as_encoded_array(iv.chromosome, StringEncoding(_labels(w, op))))
    return iv


def _labels(w, op):
    """label list of the StringEncoding used for the fast path: file order, reversed, or only the names used"""
    if op["labels"] == "reversed":
        return w.names[::-1]
    if op["labels"] == "used":
        labels = []
        for i, _, _ in op["ivs"]:
            if w.names[i] not in labels:
                labels.append(w.names[i])
        return labels
    return list(w.names)


def register_interval(w, op, i, a, b):
    ctx, spec = w.ctx, w.spec
    rec = spec["records"][i]
    n, wd = len(rec["seq"]), rec["width"]
    if n <= wd and b == n:
        ctx.probe("interval_end_on_end_of_single_line")
    spans = (b - 1) // wd - a // wd
    ctx.state(w.source, w.route, op["path"], _width_class(wd), F.pos_class(a, wd, n), F.pos_class(b, wd, n),
              min(spans, 2), _last_line_class(n, wd), spec["crlf"], spec["final_newline"], w.fault_seen)
    if n > wd:
        if b % wd == 0:
            ctx.probe("interval_end_on_line_end")
        if a % wd == 0:
            ctx.probe("interval_start_on_line_start")
        if wd > 1 and b % wd == 1:
            ctx.probe("interval_end_just_after_line_start")
        if wd > 1 and a % wd == wd - 1:
            ctx.probe("interval_start_just_before_line_end")
        if spans >= 1:
            ctx.probe("interval_spans_line_break")
        if spans >= 2:
            ctx.probe("interval_spans_two_line_breaks")
    if a == 0 and b == n:
        ctx.probe("interval_whole_record")
    if b == n:
        ctx.probe("interval_ends_at_record_end")
    if b - a == 1:
        ctx.probe("interval_one_base")


def run_intervals(bnp, w, handle, genome, op):
    ctx, spec = w.ctx, w.spec
    iv = core.call(make_intervals, bnp, w, op)
    if raised(iv):
        raise Inconclusive("cannot build the Interval table: " + iv.type)
    fast_taken = type(getattr(getattr(iv, "chromosome", None), "encoding", None)).__name__ == "StringEncoding"
    if w.route == "genome":
        if op["path"] == "fast":
            gi = core.call(genome.get_intervals, iv)
            if raised(gi):
                ctx.probe("genome_get_intervals_raised")
                return
            iv = gi
        got, fired = w.call(lambda: handle[iv])
        call_text = "seq[bnp.Interval(...)]" if op["path"] == "plain" else "seq[g.get_intervals(bnp.Interval(...))]"
    else:
        if op["path"] == "fast":
            ctx.probe("fast_path" if fast_taken else "fast_path_not_taken")
        got, fired = w.call(handle.get_interval_sequences, iv)
        call_text = "iv = Interval.from_entry_tuples(%r); " % ([(w.names[i], a, b) for i, a, b in op["ivs"]],)
        if fast_taken:
            call_text += ("from bionumpy.encodings.string_encodings import StringEncoding; iv = bnp.replace(iv, chromosome="
                          "bnp.as_encoded_array(iv.chromosome, StringEncoding(%r))); " % (_labels(w, op),))
        call_text += "idx.get_interval_sequences(iv)"
    ctx.steps += 1
    tags = sorted({t for t in (trigger_tag(spec, i, a, b) for i, a, b in op["ivs"]) if t})
    suffix = ("_" + tags[0]) if tags else ""
    triples = [[w.names[i], a, b] for i, a, b in op["ivs"]]
    if len(op["ivs"]) == 1:
        ctx.probe("single_interval_call")
    if op["op"] == "all":
        ctx.probe("all_intervals_of_a_record")
    if raised(got):
        if fired:
            ctx.probe("eio_surfaced")
            return
        raise Violation("intervals", "raises" + suffix,
                        w.detail(path=op["path"], labels=op["labels"], intervals=triples[:40], n_intervals=len(triples),
                                 error=repr(got), repro=_repro(w.data, w.route, call_text)))
    if fired:
        ctx.probe("eio_swallowed_call_completed")
    expected = [F.fetch(spec, i, a, b) for i, a, b in op["ivs"]]
    got_p = core.plain(got)
    if w.route == "genome":   # GenomicSequence re-encodes to the case-less ACGTN alphabet
        expected = [s.upper() for s in expected]
        if isinstance(got_p, list):
            got_p = [s.upper() if isinstance(s, str) else s for s in got_p]
    ctx.evals += len(expected)
    for i, a, b in op["ivs"]:
        register_interval(w, op, i, a, b)
    if not core.same(got_p, expected):
        first = None
        if isinstance(got_p, list) and len(got_p) == len(expected):
            first = next(j for j in range(len(expected)) if not core.same(got_p[j], expected[j]))
        d = w.detail(path=op["path"], labels=op["labels"], n_intervals=len(triples),
                     repro=_repro(w.data, w.route, call_text))
        if first is not None:
            d.update({"interval": triples[first], "expected": expected[first], "got": core.short(got_p[first], 200),
                      "position_in_batch": first, "batch": triples[:40]})
        else:
            d.update({"batch": triples[:40], "expected": expected[:40], "got": core.short(got_p, 600)})
        raise Violation("intervals", "mismatch" + suffix, d)


def check_fai(w):
    ctx, spec, fs = w.ctx, w.spec, w.fs
    blob = fs.files.get(FAI)
    if blob is None:
        raise Violation("fai", "missing", w.detail())
    got_rows, problem = F.parse_fai(blob)
    if got_rows is None:
        raise Violation("fai", "malformed", w.detail(problem=problem, got_fai=core.esc(blob[:600])))
    skip = set()
    last = spec["records"][-1]
    if not spec["final_newline"] and len(last["seq"]) <= last["width"]:
        # under-determined: the only line of the last record has no terminator, "bytes per line" has no witness
        skip.add((len(w.rows) - 1, "linewidth"))
    ctx.evals += len(w.rows)
    diff = F.compare_rows(w.rows, got_rows, skip)
    if diff is not None:
        kind, d = diff
        raise Violation("fai", kind, w.detail(got_fai=core.esc(blob[:600]), **d))
    ctx.probe("fai_rows_equal_model", len(w.rows))


def run(ctx):
    tape = ctx.tape
    thorough = ctx.tier == "thorough"
    max_records, max_len, max_width = (8, 400, 80) if thorough else (5, 60, 12)

    # ---- generator decisions
    source = tape.weighted([(1, "model"), (1, "library")], "source")
    route = tape.weighted([(3, "indexed"), (1, "genome")], "route")
    # KF candidate C17-fai-name-description: the library-written .fai keeps the header's description in the name
    # column (and Genome.from_file then fails on it): no descriptions with a library-built index in 90 % of runs
    allow_desc = True   # FX-C17-fai-name-description is fixed
    spec = F.gen_fasta(tape, max_records, max_len, max_width, allow_desc=allow_desc)
    data = F.serialize(spec)
    rows = F.rows_of(spec)
    if F.faidx(data) != rows:       # the two model computations must agree (a model defect is an ERROR)
        raise AssertionError(f"fai model disagrees with itself: {rows} vs {F.faidx(data)}")
    spans = F.record_spans(spec)
    size = len(data)
    big = max(len(F.header_line(r)) + 2 + (e - s) + 2 for r, (s, e) in zip(spec["records"], spans))
    k = None
    if source == "library":
        kmin = 1 + big // 10        # below this the reader's cost is quadratic in record bytes / k
        kind = tape.weighted([(1, "default"), (3, "small"), (2, "any")], "k.kind")
        if kind == "small":
            k = kmin + tape.draw(kmin + 8, "k")
        elif kind == "any":
            k = kmin + tape.draw(max(1, size + 3 - kmin), "k")
    eio_nth = None
    if tape.boolean("eio", 1, 6):
        eio_nth = 1 + tape.draw(12, "eio.nth")
    ops = plan_ops(ctx, spec, route)
    # drawn last (and recorded only when not the default) so that tapes stored before this decision existed keep their meaning
    fai_final_newline = not (source == "model" and tape.boolean("fai.no_final_newline", 1, 4))
    ctx.scenario = dict(describe(spec, data), index_source=source, route=route, k=k, eio_nth=eio_nth,
                        ops=render_ops(ops))
    if not fai_final_newline:
        ctx.scenario["fai_final_newline"] = False
        ctx.probe("supplied_fai_without_final_newline")
    # (also drawn after all older decisions) the same Genome object is asked for the sequence of a SECOND file
    second_file = route == "genome" and tape.boolean("second_file", 1, 3)
    if second_file:
        ctx.scenario["second_file"] = True

    # ---- static probes
    for r in spec["records"]:
        n, wd = len(r["seq"]), r["width"]
        if n > wd and n % wd == 1:
            ctx.probe("one_base_last_line")
        if wd == 1 and n > 1:
            ctx.probe("width_1")
        if n > wd and n % wd == 0:
            ctx.probe("full_last_line")
        if n <= wd:
            ctx.probe("single_line_record")
        if n != min(n, wd):
            ctx.probe("length_ne_linebases")
        if wd == 80:
            ctx.probe("width_80")
        if r["desc"] is not None:
            ctx.probe("name_with_description")
    if spec["crlf"]:
        ctx.probe("crlf")
    if not spec["final_newline"]:
        ctx.probe("no_final_newline")

    # ---- the world
    fs = _FS(event_budget=200000)
    fs.put(PATH, data)
    if source == "model":
        fai_blob = F.render_fai(rows)
        fs.put(FAI, fai_blob if fai_final_newline else fai_blob[:-1])
    if eio_nth is not None:
        fs.plant_eio(PATH, "read", eio_nth)
    w = _World(ctx, spec, data, rows, fs, source, route, k)
    bnp = core.bnp()

    with simfs.Mount(fs), core.quiet():
        # -- open
        genome = None
        with core.chunk_knob(k):
            if route == "indexed":
                handle, fired = w.call(bnp.open_indexed, PATH)
            else:
                genome, fired = w.call(bnp.Genome.from_file, PATH)
                handle = genome
                if not raised(genome):
                    handle, fired2 = w.call(genome.read_sequence)
                    fired = fired or fired2
        ctx.steps += 1
        open_seq = fs.seq
        if source == "library":
            rel_seeks = sum(1 for e in fs.log if e[2] == PATH and e[3] == "seek" and e[4][1] == 1)
            if rel_seeks >= 1:
                ctx.probe("multi_chunk_index")
            if rel_seeks >= 3:
                ctx.probe("index_from_4_or_more_chunks")
        if raised(handle):
            if fired:
                ctx.probe("eio_surfaced_on_open")
            elif source == "library" and k is not None and k < 2 * big + 2:
                ctx.probe("raise_small_k_accepted")
            else:
                if source == "library" and FAI in fs.files:
                    check_fai(w)   # a wrong index the library wrote and then chokes on is reported as the index defect
                what = "bnp.Genome.from_file('g.fa').read_sequence()" if route == "genome" else "bnp.open_indexed('g.fa')"
                raise Violation("open", "raises", w.detail(error=repr(handle), repro=_repro(data, None, what)))
            ctx.io_events += fs.seq
            ctx.note("C17", len(rows), size, source, route, k, "open raised", fs.seq, core.digest(fs.log))
            return
        ctx.state("open", source, route, spec["crlf"], spec["final_newline"], min(len(rows), 3),
                  "k_default" if k is None else ("k<rec" if k < big else "k>=rec"), fired)

        # -- the index the library wrote
        if source == "library":
            check_fai(w)

        # -- fetches
        kept = []     # results of whole-contig fetches are kept and looked at again after all later fetches
        for op in ops:
            if op["op"] == "whole":
                name = w.names[op["rec"]]
                got, fired = w.call(lambda: handle[name])
                ctx.steps += 1
                if raised(got):
                    if fired:
                        ctx.probe("eio_surfaced")
                        continue
                    raise Violation("whole_contig", "raises", w.detail(name=name, error=repr(got),
                                    repro=_repro(data, route, f"{'seq' if route == 'genome' else 'idx'}[{name!r}]")))
                expected = spec["records"][op["rec"]]["seq"]
                got_t = _text(got)
                if route == "genome":
                    expected = expected.upper()
                    got_t = got_t.upper() if isinstance(got_t, str) else got_t
                ctx.evals += 1
                rec = spec["records"][op["rec"]]
                ctx.state("whole", source, route, _width_class(rec["width"]), _last_line_class(len(rec["seq"]), rec["width"]),
                          spec["crlf"], spec["final_newline"], op["rec"] == len(rows) - 1, w.fault_seen)
                if not core.same(got_t, expected):
                    raise Violation("whole_contig", "mismatch", w.detail(name=name, expected=expected,
                                    got=core.short(got_t, 500),
                                    repro=_repro(data, route, f"{'seq' if route == 'genome' else 'idx'}[{name!r}]")))
                kept.append((name, got, expected))
            elif op["op"] in ("all", "batch"):
                run_intervals(bnp, w, handle, genome, op)
            elif op["op"] == "lengths":
                got, fired = w.call(handle.get_contig_lengths)
                ctx.steps += 1
                if raised(got):
                    raise Violation("contig_lengths", "raises", w.detail(error=repr(got)))
                expected = {r[0]: r[1] for r in rows}
                ctx.evals += 1
                ctx.state("lengths", source, any(r[1] != r[3] for r in rows))
                if any(r[1] != r[3] for r in rows):
                    ctx.probe("lengths_checked_with_length_ne_linebases")
                if not core.same(core.plain(got), expected):
                    raise Violation("contig_lengths", "wrong", w.detail(
                        expected=expected, got=core.short(core.plain(got), 400),
                        repro=_repro(data, route, "idx.get_contig_lengths()")))

        # -- a fetched contig is a value: later fetches must not change what an earlier fetch returned
        for name, got, expected in kept:
            got_t = _text(got)
            if route == "genome":
                got_t = got_t.upper() if isinstance(got_t, str) else got_t
            ctx.evals += 1
            if not core.same(got_t, expected):
                raise Violation("whole_contig", "changed_by_later_fetch", w.detail(
                    name=name, expected=expected, got=core.short(got_t, 500),
                    repro=_repro(data, route, "fetch every contig, keep the results, compare them afterwards")))

        # -- the same Genome object serves another FASTA file (same contig names, other bases)
        if second_file and genome is not None and not raised(genome) and not w.fault_seen:
            import copy
            spec2 = copy.deepcopy(spec)
            for r in spec2["records"]:
                r["seq"] = r["seq"][1:] + r["seq"][:1]
            other = "/sim/other.fa"
            fs.put(other, F.serialize(spec2))
            h2, fired = w.call(genome.read_sequence, other)
            ctx.steps += 1
            if not raised(h2) and not fired:
                for i, r in enumerate(spec2["records"]):
                    got, fired = w.call(lambda: h2[w.names[i]])
                    if raised(got) or fired:
                        ctx.probe("second_file_fetch_raises(not judged)")
                        break
                    got_t = _text(got)
                    got_t = got_t.upper() if isinstance(got_t, str) else got_t
                    ctx.evals += 1
                    ctx.probe("second_file_fetched")
                    if not core.same(got_t, r["seq"].upper()):
                        raise Violation("whole_contig", "second_file_served_from_first", w.detail(
                            name=w.names[i], expected=r["seq"].upper(), got=core.short(got_t, 300),
                            repro="g = Genome.from_file(a.fa); g.read_sequence(); g.read_sequence(b.fa)[name]"))
            else:
                ctx.probe("second_file_open_raises(not judged)")

        # -- I/O pattern of the fetch phase (recorded, not judged: the property does not constrain it)
        for e in fs.log:
            if e[0] <= open_seq or e[2] != PATH:
                continue
            if e[3] == "read" and e[4] is not None and e[4] >= 0 and e[5] < e[4]:
                ctx.probe("fetch_read_past_end_of_file")
            if e[3] == "seek" and e[7] > size:
                ctx.probe("fetch_seek_past_end_of_file")
            if e[3] == "read" and not any(s <= e[6] and e[7] <= en + 2 for s, en in spans):
                ctx.probe("fetch_read_outside_a_record")
    if eio_nth is not None and not w.fault_seen:
        ctx.probe("eio_planted_not_reached")
    ctx.io_events += fs.seq
    ctx.note("C17", len(rows), size, source, route, k, len(ops), ctx.evals, fs.seq, core.digest(fs.log))
