"""C11 — streamed evaluation equals in-memory evaluation for every chunking  (streamsim)

One run = one generated dataset x one computation x a set of chunkings.  The reference is always the SAME public
function applied to the whole (concatenated) table; the streamed evaluation gets the table cut into chunks:
  source 'mem'  : NpDataclassStream(iter(slices of the in-memory table))       schedule = cut set (bit mask)
  source 'file' : the table serialised to SimFS, bnp.open(path).read_chunks(k) schedule = chunk size k
                  (or the default chunk size under core.chunk_knob(k): Genome.read_intervals/read_track(stream=True))
cutmode 'all' is the deterministic inner loop over every cut set (2^(n-1)) / every k; a failure is re-expressed as
cutmode 'fixed' with that one cut set / k (Violation.rewrite), so that a replay executes one chunking.
"""
from .. import core, simfs
from ..core import Violation, Inconclusive, raised, call, plain
from ..engines import streamsim as S

ID = "C11"
LEVEL = "exploration"
ENGINE = "streamsim"
RULE = ("one evaluation = one streamed computation (bnp.mean / bincount / histogram / count_kmers / groupby / "
        "chunk_entries / chunk_lines / a user @streamable function / a Genome stream=True pipeline finished by "
        "bnp.compute) over one chunking of a generated sorted table, compared with the same public function on the "
        "whole table. Chunkings: every one of the 2^(n-1) cut sets (n <= 8 quick, <= 10 thorough; genomic pipelines "
        "n <= 7 / 8) or every chunk size k of the file-backed stream, else the two extremes plus sampled cut sets "
        "(n <= 40). A case is non-trivial if the stream had >= 2 chunks; distinct = distinct tuples (family.op, "
        "source kind, number of chunks bucket, relation of the cuts to the key groups [inside a group / right after "
        "a group / single-entry chunk], fault kind)")
BUDGET = {"quick": (4000, 40), "thorough": (60000, 900)}
ASSUMPTIONS = ["the reference is bionumpy's own result for the same public call on the whole table (never a model of "
               "the 'right' number); if it raises the run is inconclusive",
               "tracks are compared as dense per-chromosome arrays (two run segmentations of one array are one value)",
               "floats compare with rel_tol 1e-9 (summation order differs between the streamed and the global path)",
               "SimFS implements the BufferedReader contract (full reads before EOF)"]

FAMILIES = [(3, "reduce"), (2, "seq"), (3, "groupby"), (2, "rechunk"), (2, "user"), (5, "genomic")]
CUTMODES = [(2, "fixed"), (5, "all"), (3, "sampled")]
KEY_NAMES = ["2", "c", "chr1", "chr10", "chr2", "chrX"]            # sorted; one name prefixes another
GENOME_NAMES = [["chr1", "chr2", "chr3", "chr4"], ["chr1", "chr10", "chr2", "chrX"], ["1", "2", "10", "X"]]
VALUES = [1.0, 0.5, 2.0, 1.5, 4.0, 0.25, 3.0]
IDS = "abxyz"


class Case:
    """a computation on a table: compute(src, streamed) -> plain value"""

    def __init__(self, family, op, kind, rows, keys, params=None):
        self.family = family
        self.op = op
        self.kind = kind              # table kind of the primary dataset (the one that gets the chunking)
        self.rows = rows
        self.keys = keys              # key per row (groups for the cut-vs-group relation)
        self.params = params or {}
        self.extra = {}               # further generator decisions for the scenario (genome, secondary tables)
        self.compute = None
        self.judge = None             # None: value equality with the reference
        self.accept_raise = None      # streamed raise that is not judged: fn(info) -> probe name | None
        self.multi = False
        self.exh = None               # cap on n for the exhaustive loop (None: tier default)
        self.abandon = None           # cancel fault: build and drop a pipeline object

    @property
    def n(self):
        return len(self.rows)

    def describe(self):
        d = {"family": self.family, "op": self.op, "params": self.params, "kind": self.kind,
             "rows": [list(r) for r in self.rows]}
        d.update(self.extra)
        return d


# ---------------------------------------------------------------------------------------------
# generators (0 is the simplest choice everywhere)

def _p(cap):
    """probability of one more row: long tables when the cap is high"""
    return (9, 10) if cap > 12 else (4, 5)


def gen_grouped_rows(tape, cap, names, tag, allow_empty_groups=False, sizes=None, wide=False, min_total=1):
    """rows (chrom, start, stop) grouped by chromosome in the order of `names`, sorted by start inside a group.
    sizes: chromosome sizes (coordinates stay inside) or None (free coordinates < 60)."""
    rows = []
    for gi, name in enumerate(names):
        size = sizes[gi] if sizes else 60
        grp = []
        first = (gi == 0 and not allow_empty_groups)
        while len(rows) + len(grp) < cap and (first and not grp or tape.more(tag + ".more", *_p(cap))):
            start = tape.draw(size, tag + ".start")
            width = 1 + tape.draw(min(size - start, 12) + (3 if wide else 0), tag + ".width")
            grp.append((name, start, start + width))
        grp.sort(key=lambda r: (r[1], r[2]))
        rows.extend(grp)
    if len(rows) < min_total:
        rows.append((names[0], 0, 1))
        rows.sort(key=lambda r: (names.index(r[0]), r[1], r[2]))
    return rows


def gen_key_names(tape, tag):
    """1..4 distinct key names in sorted order"""
    k = 1 + tape.draw(4, tag + ".ngroups")
    picked = []
    pool = list(KEY_NAMES)
    for _ in range(k):
        picked.append(pool.pop(tape.draw(len(pool), tag + ".name")))
    return sorted(picked)


def gen_bedgraph_rows(tape, cap, names, sizes, tag):
    rows = []
    for name, size in zip(names, sizes):
        pos = 0
        while len(rows) < cap and pos < size and tape.more(tag + ".more", *_p(cap)):
            pos += tape.weighted([(3, 0), (1, 1), (1, 2)], tag + ".gap")
            if pos >= size:
                break
            length = 1 + tape.draw(min(size - pos, 6), tag + ".len")
            rows.append((name, pos, pos + length, VALUES[tape.draw(len(VALUES), tag + ".val")]))
            pos += length
    if not rows:
        rows.append((names[0], 0, sizes[0], 1.0))
    return rows


def gen_reads(tape, cap, equal_len):
    rows = []
    L = 1 + tape.draw(6, "rd.len") if equal_len else None
    while len(rows) < cap and (not rows or tape.more("rd.more", *_p(cap))):
        ln = L or 1 + tape.weighted([(3, 0), (3, 1), (2, 3), (2, 5), (1, 8)], "rd.w")
        seq = "".join("ACGT"[tape.draw(4, "rd.c")] for _ in range(ln))
        qual = "".join("!#5I+"[tape.draw(5, "rd.q")] for _ in range(ln))
        name = IDS[tape.draw(len(IDS), "rd.name")] + str(len(rows))
        rows.append((name, seq, qual))
    return rows


def gen_genome(tape):
    nchrom = 1 + tape.draw(4, "g.nchrom")
    names = GENOME_NAMES[tape.weighted([(3, 0), (1, 1), (1, 2)], "g.names")][:nchrom]
    sizes = [4 + tape.draw(17, "g.size") for _ in names]
    return names, sizes


# ---------------------------------------------------------------------------------------------
# families

def build_reduce(ctx, tape, cap, source):
    b = core.bnp()
    names = gen_key_names(tape, "key")
    kind = tape.weighted([(3, "interval"), (2, "bedgraph")], "kind")
    if kind == "interval":
        rows = gen_grouped_rows(tape, cap, names, "iv")
        field = tape.choice(["start", "stop"], "field")
    else:
        rows = gen_bedgraph_rows(tape, cap, names, [40] * len(names), "bg")
        field = tape.choice(["value", "start"], "field")
    is_float = field == "value"
    ops = ["mean", "mean_axis0", "hist_edges", "hist_range"] + ([] if is_float else ["bincount", "bincount_minlength",
                                                                                      "quantile"])
    op = tape.choice(ops, "op")
    params = {"field": field}
    if op == "hist_edges":
        e0 = tape.draw(5, "h.e0")
        edges = [e0]
        for _ in range(1 + tape.draw(4, "h.nb")):
            edges.append(edges[-1] + 1 + tape.draw(20, "h.step"))
        params["bins"] = [x / 2 for x in edges] if is_float else edges
    elif op == "hist_range":
        params["bins"] = 1 + tape.draw(6, "h.nb")
        params["range"] = [0, 1 + tape.draw(70, "h.hi")]
    elif op == "bincount_minlength":
        params["minlength"] = tape.draw(80, "bc.min")
    elif op == "quantile":
        params["q"] = tape.choice([0.5, 0.25, 0.9, 1.0], "q")
    case = Case("reduce", op, kind, rows, [r[0] for r in rows], params)

    def compute(src, streamed):
        data = src.stream() if streamed else src.whole()
        col = getattr(data, field)
        if op == "mean":
            return plain(b.mean(col))
        if op == "mean_axis0":
            return plain(b.mean(col, axis=0))
        if op == "bincount":
            return plain(b.bincount(col))
        if op == "bincount_minlength":
            return plain(b.bincount(col, minlength=params["minlength"]))
        if op == "quantile":
            return plain(b.quantile(col, params["q"]))           # bincount based
        if op == "hist_edges":
            return S.dense(b.histogram(col, bins=params["bins"]))
        if op == "hist_range":
            return S.dense(b.histogram(col, bins=params["bins"], range=tuple(params["range"])))
        raise KeyError(op)
    case.compute = compute
    return case


def build_seq(ctx, tape, cap, source):
    b = core.bnp()
    import numpy as np
    op = tape.choice(["kmers", "qmean", "qmean_rows", "qmean_cols", "user_count_encoded", "user_n_reads",
                      "reverse_complement"], "op")
    equal_len = tape.boolean("rd.equal", 1, 3)
    rows = gen_reads(tape, cap, equal_len)
    params = {"equal_len": equal_len}
    if op == "kmers":
        params["k"] = tape.choice([2, 3, 1], "kmer.k")
    case = Case("seq", op, "reads", rows, [len(r[1]) for r in rows], params)
    widths = sorted(set(len(r[1]) for r in rows))

    @b.streamable(sum)
    def letter_counts(chunk):
        return b.count_encoded(b.as_encoded_array(chunk.sequence.ravel(), b.DNAEncoding))

    @b.streamable()
    def n_reads(chunk):
        return len(chunk.sequence)

    def compute(src, streamed):
        data = src.stream() if streamed else src.whole()
        if op == "kmers":
            return S.counts(b.sequence.count_kmers(data.sequence, params["k"]))
        if op == "qmean":
            return plain(b.mean(data.quality))
        if op == "qmean_rows":
            r = b.mean(data.quality, axis=-1)
            return plain(S.concat(r) if streamed else r)
        if op == "qmean_cols":
            return plain(b.mean(data.quality, axis=0))
        if op == "user_count_encoded":
            return S.counts(letter_counts(data))
        if op == "user_n_reads":
            r = n_reads(data)
            return plain(sum(r) if streamed else r)
        if op == "reverse_complement":
            r = b.sequence.get_reverse_complement(data.sequence)     # a library function decorated @streamable()
            return plain(S.concat(r) if streamed else r)
        raise KeyError(op)
    case.compute = compute
    if op == "qmean_cols" and len(widths) > 1:
        # column means over chunks whose longest row differs: np.append(col_sums, n) of different widths cannot be
        # added; the call shape (ragged rows of unequal length, axis=0, stream) is not documented as supported:
        # a raise is not judged, a value that is returned is
        case.accept_raise = lambda info: "raise_ragged_axis0_unequal_rows_accepted"
    return case


def build_groupby(ctx, tape, cap, source):
    b = core.bnp()
    col = tape.weighted([(3, "chromosome"), (1, "start")], "gb.col")
    # (a grouping column declared `str` — ragged text — is not generated here: a streamed group-by over such a column
    # always raises TypeError inside npstructures under numpy 2 (int() of a size-1 array in the fast path `keys[-1]`),
    # the in-memory form works and is exercised by C12's `table_strkey` sources)
    # KF-C11-ragged-key-groupby-typeerror (open): generated in 1/10 of the runs only
    strkey = (not ctx.excl) and col == "chromosome" and source == "mem" and tape.boolean("gb.strkey", 1, 2)
    if col == "chromosome":
        names = gen_key_names(tape, "key")
        rows = gen_grouped_rows(tape, cap, names, "iv")
        keys = [r[0] for r in rows]
    else:
        rows = []
        cur = 0
        while len(rows) < cap and (not rows or tape.more("iv.more", *_p(cap))):
            cur += tape.weighted([(2, 0), (2, 1), (1, 7)], "iv.step")
            rows.append(("chr1", cur, cur + 1 + tape.draw(5, "iv.width")))
        keys = [r[1] for r in rows]
    case = Case("groupby", "groupby_" + col + ("_strkey" if strkey else ""), "strkey" if strkey else "interval", rows, keys,
                {"column": col})

    def compute(src, streamed):
        data = src.stream() if streamed else src.whole()
        return S.groups(b.groupby(data, col), S.FIELDS["interval"])
    case.compute = compute
    return case


def build_rechunk(ctx, tape, cap, source):
    core.bnp()
    from bionumpy.streams.chunk_entries import chunk_entries
    from bionumpy.io.parser import chunk_lines
    op = tape.weighted([(3, "chunk_entries"), (1, "chunk_lines")], "op")
    names = gen_key_names(tape, "key")
    rows = gen_grouped_rows(tape, cap, names, "iv")
    m = 1 + tape.draw(len(rows) + 1, "m")
    case = Case("rechunk", op, "interval", rows, [r[0] for r in rows], {"m": m})
    fields = S.FIELDS["interval"]

    def compute(src, streamed):
        if not streamed:
            return S.cols(src.whole(), fields)
        fn = chunk_entries if op == "chunk_entries" else chunk_lines
        out = []
        for c in fn(src.stream(), m):
            if len(c) == 0:
                # chunk_lines ends with an empty chunk when m divides n ("except possibly the last" allows it);
                # the fields of an empty slice of a lazily read table are not part of this property
                out.append(dict({f: [] for f in fields}, **{"<len>": 0}))
                continue
            out.append(S.cols(c, fields))
            if len(out) > 4 * len(rows) + 4:
                raise RuntimeError("bnpsim: no end of stream")
        return out

    def judge(ref, got, info):
        if not isinstance(got, list) or not all(isinstance(c, dict) and isinstance(c.get("<len>"), int) for c in got):
            return "malformed", {"got": core.short(got, 300)}
        sizes = [c["<len>"] for c in got]
        info["out_sizes"] = sizes
        if sizes and sizes[-1] < m:
            info["last_short"] = True
        joined = {f: [] for f in fields}
        for c in got:
            for f in fields:
                if not isinstance(c[f], list):
                    return "malformed", {"chunk": core.short(c, 300)}
                joined[f].extend(c[f])
        joined["<len>"] = sum(sizes)
        if not core.same(joined, ref):
            return "order_or_content", {"concatenated": core.short(joined, 400), "table": core.short(ref, 400)}
        bad = [i for i, s in enumerate(sizes[:-1]) if s != m]
        if bad or (sizes and sizes[-1] > m):
            return "chunk_size", {"m": m, "out_sizes": sizes}
        return None
    case.compute = compute
    case.judge = judge
    return case


def build_user(ctx, tape, cap, source):
    b = core.bnp()
    import numpy as np
    op = tape.choice(["total_length", "widths", "filter", "shift", "n_entries", "two_streams_around_constant"], "op")
    names = gen_key_names(tape, "key")
    rows = gen_grouped_rows(tape, cap, names, "iv")
    params = {}
    if op == "filter":
        params["min_width"] = 1 + tape.draw(8, "u.t")
    if op == "shift":
        params["d"] = tape.draw(9, "u.d")
    case = Case("user", op, "interval", rows, [r[0] for r in rows], params)
    fields = S.FIELDS["interval"]

    @b.streamable(sum)
    def total_length(chunk):
        return int(np.sum(chunk.stop - chunk.start))

    @b.streamable(lambda results: np.concatenate(list(results)))
    def widths(chunk):
        return chunk.stop - chunk.start

    @b.streamable()
    def keep_wide(chunk, min_width):
        return chunk[(chunk.stop - chunk.start) >= min_width]

    @b.streamable(list)
    def shift(starts, d):
        return starts + d

    @b.streamable()
    def n_entries(chunk):
        return len(chunk)

    @b.streamable(sum)
    def weighted_width(starts, k, stops):       # two streamed arguments with an ordinary one between them
        return int(np.sum((stops - starts) * k))

    def compute(src, streamed):
        data = src.stream() if streamed else src.whole()
        if op == "total_length":
            return plain(total_length(data))
        if op == "widths":
            return plain(widths(data))
        if op == "filter":
            r = keep_wide(data, params["min_width"])
            return S.cols(np.concatenate(list(r)) if streamed else r, fields)
        if op == "shift":
            r = shift(data.start, params["d"])
            return plain(np.concatenate(r) if streamed else r)
        if op == "n_entries":
            r = n_entries(data)
            return plain(sum(r) if streamed else r)
        if op == "two_streams_around_constant":
            if streamed:
                return plain(weighted_width(data.start, 3, src.stream().stop))     # two independent streams, same cuts
            return plain(weighted_width(data.start, 3, data.stop))
        raise KeyError(op)
    case.compute = compute
    return case


GENOMIC_OPS_I = [(2, "ivals"), (2, "mask"), (3, "pileup"), (2, "pileup_sum"), (2, "pileup_hist"), (2, "clip"),
                 (2, "extend"), (1, "extend_clip_pileup"), (1, "merged"), (2, "pileup_at_windows"),
                 (2, "pileup_at_self"), (1, "max_at_self"), (1, "filter_by_max"),
                 (2, "multi_reduce_tuple"), (1, "multi_reduce_dict"), (2, "multi_data_tuple"), (1, "multi_data_dict"),
                 (2, "multi_two_sources"), (2, "location_windows"), (1, "pileup_arith")]
GENOMIC_OPS_B = [(3, "track"), (2, "track_sum"), (2, "track_hist"), (2, "track_at_windows"),
                 (2, "track_at_stream_windows"), (2, "track_mean_cols"), (1, "track_mean_rows"), (1, "track_arith"),
                 (1, "track_gt"), (1, "from_track"), (1, "multi_track_tuple"), (2, "track_sum_rows"), (1, "track_max_rows"),
                 (3, "track_sum_rows"),      # (appended, not re-weighted: stored tapes keep their meaning)
                 (2, "multi_mean_sum_tuple"), (2, "multi_hist_mean_dict")]   # reductions of different kinds in one compute


# constant on either side of commutative and non-commutative operators, explicit ufunc calls, unary minus
ARITH = ["t*2+1", "3-t", "t-3", "1+t", "(t+1)/2", "6/(t+1)", "-t", "np.subtract(3,t)", "np.maximum(t,1)", "t*t", "2**t", "7//(t+1)"]


def arith(expr, t):
    import numpy as np
    return eval(expr, {"np": np, "t": t})


def build_genomic(ctx, tape, cap, source):
    b = core.bnp()
    import numpy as np
    names, sizes = gen_genome(tape)
    chrom_sizes = dict(zip(names, sizes))
    primary = tape.weighted([(3, "I"), (2, "B")], "g.primary")
    params = {}
    extra = {"genome": [[n, s] for n, s in zip(names, sizes)]}
    if primary == "I":
        ops = GENOMIC_OPS_I
        if source == "file":
            # extended_to_size on a table read (lazily) from a file raises in memory too (dataclasses.replace on the
            # lazy Bed6 class): the reference never exists, so these two ops are not drawn for the file source
            ops = [(w, o) for w, o in ops if o not in ("extend", "extend_clip_pileup")]
        op = tape.weighted(ops, "op")
        stranded = op in ("extend", "extend_clip_pileup") or tape.boolean("g.stranded", 1, 3)
        wide = op == "clip"
        rows = gen_grouped_rows(tape, cap, names, "iv", allow_empty_groups=True, sizes=sizes, wide=wide)
        if not wide:
            rows = [(c, s, min(e, chrom_sizes[c])) for c, s, e in rows]
        if stranded:
            rows = [r + ("+-"[tape.draw(2, "iv.strand")],) for r in rows]
        kind = "stranded" if stranded else "interval"
    else:
        op = tape.weighted(GENOMIC_OPS_B, "op")
        stranded = False
        rows = gen_bedgraph_rows(tape, cap, names, sizes, "bg")
        kind = "bedgraph"
    params["stranded"] = stranded
    if op in ("extend", "extend_clip_pileup"):
        params["size"] = 1 + tape.draw(12, "g.ext")
    if op == "merged":
        params["distance"] = 1 + tape.draw(4, "g.dist")
    if op in ("pileup_hist", "multi_reduce_tuple", "multi_reduce_dict"):
        params["bins"] = 1 + tape.draw(4, "h.nb")
        params["range"] = [0, 1 + tape.draw(5, "h.hi")]
    if op in ("track_hist", "multi_track_tuple", "multi_hist_mean_dict"):
        params["bins"] = [0, 0.5, 1, 2, 5][: 2 + tape.draw(4, "h.nb")]
    if op in ("max_at_self", "filter_by_max"):
        params["t"] = tape.draw(3, "g.t")
    if op in ("track_gt", "from_track"):
        params["t"] = [0.0, 0.5, 1.0, 2.0][tape.draw(4, "g.t")]
    if op in ("track_sum_rows", "track_mean_rows") and tape.feature("c11_axis_form"):
        # how the axis is handed over: keyword, positional, or through the numpy function
        params["axis_form"] = ["kw", "pos", "np_kw", "np_pos", "kw1"][tape.draw(5, "g.axis_form")]
    if op in ("track_arith", "pileup_arith"):
        params["expr"] = ARITH[tape.draw(len(ARITH), "g.expr")]
    if op == "location_windows":
        params["where"] = "start"    # the streamed form asserts where == 'start' (loud, not judged)
        if tape.boolean("g.by_flank", 1, 2):
            params["flank"] = tape.draw(5, "g.flank")
        else:
            params["window_size"] = 1 + tape.draw(8, "g.wsize")
    # secondary tables
    sec_rows, sec_kind, sec_stranded = None, None, False
    if op in ("pileup_at_windows", "track_at_windows", "track_at_stream_windows", "track_mean_rows", "track_sum_rows",
              "track_max_rows"):
        sec_stranded = tape.boolean("w.stranded", 1, 3)
        sec_rows = gen_grouped_rows(tape, 6, names, "w", allow_empty_groups=True, sizes=sizes)
        sec_rows = [(c, s, min(e, chrom_sizes[c])) for c, s, e in sec_rows]
    elif op in ("track_mean_cols", "multi_mean_sum_tuple", "multi_hist_mean_dict"):
        sec_stranded = tape.boolean("w.stranded", 1, 3)
        w = 1 + tape.draw(min(sizes), "w.width")
        unequal = w >= 2 and tape.boolean("w.unequal", 1, 2)     # rows of different lengths: column counts differ
        sec_rows = []
        for name, size in zip(names, sizes):
            while len(sec_rows) < 6 and tape.more("w.more", 2, 3):
                wi = w - (tape.draw(min(w, 3), "w.shorter") if unequal else 0)
                s0 = tape.draw(size - wi + 1, "w.start")
                sec_rows.append((name, s0, s0 + wi))
        if not sec_rows:
            sec_rows = [(names[0], 0, w)]
        sec_rows.sort(key=lambda r: (names.index(r[0]), r[1]))
        params["window"] = w
    elif op == "multi_two_sources":
        sec_rows = gen_bedgraph_rows(tape, 6, names, sizes, "bg")
        sec_kind = "bedgraph"
    if sec_rows is not None and sec_kind is None:
        if sec_stranded:
            sec_rows = [r + ("+-"[tape.draw(2, "w.strand")],) for r in sec_rows]
        sec_kind = "stranded" if sec_stranded else "interval"
    sec_mask = S.draw_mask(tape, len(sec_rows), "cut2.mask") if sec_rows is not None else 0
    if sec_rows is not None:
        extra["secondary"] = {"kind": sec_kind, "rows": [list(r) for r in sec_rows], "cut_mask": sec_mask}
    case = Case("genomic", op, kind, rows, [r[0] for r in rows], params)
    case.extra = extra
    case.multi = op.startswith("multi_")
    case.exh = 8 if ctx.tier == "thorough" else 7
    present = set(r[0] for r in rows)
    case.empty_chromosome = any(nm not in present for nm in names)
    sec_table = [None]

    def secondary():
        if sec_table[0] is None:
            sec_table[0] = S.make_table(sec_kind, sec_rows)
        return sec_table[0]

    ifields = ["chromosome", "start", "stop"]

    def idata(gi):
        return S.cols(gi.get_data(), ifields)

    def tdata(x, boolean=False):
        return S.dense_track(x, chrom_sizes, boolean)

    def compute(src, streamed):
        genome = b.Genome.from_dict(dict(chrom_sizes))
        fin = b.compute
        if primary == "I":
            iv = src.intervals(genome, stranded, streamed)
            if op == "ivals":
                return idata(fin(iv))
            if op == "mask":
                return tdata(fin(iv.get_mask().get_data()), True)
            if op == "pileup":
                return tdata(fin(iv.get_pileup().get_data()))
            if op == "pileup_sum":
                return plain(fin(iv.get_pileup().sum()))
            if op == "pileup_hist":
                return S.dense(fin(np.histogram(iv.get_pileup(), bins=params["bins"], range=tuple(params["range"]))))
            if op == "clip":
                return idata(fin(iv.clip()))
            if op == "extend":
                return idata(fin(iv.extended_to_size(params["size"])))
            if op == "extend_clip_pileup":
                return tdata(fin(iv.extended_to_size(params["size"]).clip().get_pileup().get_data()))
            if op == "merged":
                return idata(fin(iv.merged(params["distance"])))
            if op == "location_windows":
                loc = iv.get_location(params["where"])
                w = loc.get_windows(flank=params["flank"]) if "flank" in params else loc.get_windows(window_size=params["window_size"])
                return idata(fin(w))
            if op == "pileup_arith":
                return tdata(fin(arith(params["expr"], iv.get_pileup()).get_data()))
            if op == "pileup_at_windows":
                w = genome.get_intervals(secondary(), stranded=sec_stranded)
                return S.dense(fin(iv.get_pileup()[w]))
            pile = iv.get_pileup()
            if op == "pileup_at_self":
                return S.dense(fin(pile[iv]))
            if op == "max_at_self":
                return S.dense(fin(np.max(pile[iv], axis=-1)))
            if op == "filter_by_max":
                return idata(fin(iv[np.max(pile[iv], axis=-1) > params["t"]]))
            if op in ("multi_reduce_tuple", "multi_reduce_dict"):
                s_node = pile.sum()
                h_node = np.histogram(pile, bins=params["bins"], range=tuple(params["range"]))
                if op == "multi_reduce_tuple":
                    s, h = tuple(fin((s_node, h_node)))
                else:
                    r = fin({"sum": s_node, "hist": h_node})
                    s, h = r["sum"], r["hist"]
                return {"sum": plain(s), "hist": S.dense(h)}
            if op in ("multi_data_tuple", "multi_data_dict"):
                m_node = iv.get_mask().get_data()
                p_node = pile.get_data()
                # a plain, already known member in front of the nodes
                if op == "multi_data_tuple":
                    k, m, p = tuple(fin((7, m_node, p_node)))
                else:
                    r = fin({"n": 7, "mask": m_node, "pileup": p_node})
                    k, m, p = r["n"], r["mask"], r["pileup"]
                return {"plain": plain(k) if isinstance(k, (int, float)) else repr(type(k)), "mask": tdata(m, True), "pileup": tdata(p)}
            if op == "multi_two_sources":
                sec = S.MemSource(secondary(), S.cuts_of_mask(sec_mask, len(sec_rows)), getattr(src, "pulls", None))
                tr = sec.track(genome, streamed)
                p, t = tuple(fin((pile.get_data(), tr.get_data())))
                return {"pileup": tdata(p), "track": tdata(t)}
            raise KeyError(op)
        tr = src.track(genome, streamed)
        if op == "track":
            return tdata(fin(tr.get_data()))
        if op == "track_sum":
            return plain(fin(tr.sum()))
        if op == "track_hist":
            return S.dense(fin(np.histogram(tr, bins=params["bins"])))
        if op in ("track_at_windows", "track_mean_cols", "track_mean_rows", "track_sum_rows", "track_max_rows"):
            w = genome.get_intervals(secondary(), stranded=sec_stranded)
            x = tr[w]
            if op == "track_mean_cols":
                x = x.mean(axis=0)
            elif op in ("track_mean_rows", "track_sum_rows"):
                form = params.get("axis_form", "kw")
                name = "mean" if op == "track_mean_rows" else "sum"
                npf = np.mean if name == "mean" else np.sum
                if form == "kw":
                    x = getattr(x, name)(axis=-1)
                elif form == "kw1":
                    x = getattr(x, name)(axis=1)
                elif form == "pos":
                    x = getattr(x, name)(-1)
                elif form == "np_kw":
                    x = npf(x, axis=-1)
                else:
                    x = npf(x, -1)
            elif op == "track_max_rows":
                x = x.max(axis=-1)
            return S.dense(fin(x))
        if op == "track_at_stream_windows":
            sec = S.MemSource(secondary(), S.cuts_of_mask(sec_mask, len(sec_rows)), getattr(src, "pulls", None))
            w = sec.intervals(genome, sec_stranded, streamed)
            return S.dense(fin(tr[w]))
        if op == "track_arith":
            return tdata(fin(arith(params.get("expr", "t*2+1"), tr).get_data()))
        if op == "track_gt":
            return tdata(fin((tr > params["t"]).get_data()), True)
        if op == "from_track":
            return idata(fin(b.GenomicIntervals.from_track(tr > params["t"])))
        if op in ("multi_mean_sum_tuple", "multi_hist_mean_dict"):
            w = genome.get_intervals(secondary(), stranded=sec_stranded)
            m_node = tr[w].mean(axis=0)
            if op == "multi_mean_sum_tuple":
                m, s_ = tuple(fin((m_node, tr.sum())))
                return {"mean": S.dense(m), "sum": plain(s_)}
            r = fin({"hist": np.histogram(tr, bins=params["bins"]), "mean": m_node})
            return {"hist": S.dense(r["hist"]), "mean": S.dense(r["mean"])}
        if op == "multi_track_tuple":
            s, h = tuple(fin((tr.sum(), np.histogram(tr, bins=params["bins"]))))
            return {"sum": plain(s), "hist": S.dense(h)}
        raise KeyError(op)
    case.compute = compute

    def abandon(src):
        genome = b.Genome.from_dict(dict(chrom_sizes))
        if primary == "I":
            src.intervals(genome, stranded, True).get_pileup()
        else:
            src.track(genome, True).sum()
    case.abandon = abandon
    return case


BUILDERS = {"reduce": build_reduce, "seq": build_seq, "groupby": build_groupby, "rechunk": build_rechunk,
            "user": build_user, "genomic": build_genomic}


# ---------------------------------------------------------------------------------------------
# one judged evaluation

def judge_one(ctx, case, src, ref, got, sched, rel, fault=None, small_k=False):
    """got: plain value or Raised"""
    ctx.evals += 1
    ctx.state(case.family + "." + case.op, src.kind, S.bucket(rel["nchunks"]), S.relation_key(rel), fault)
    if rel["nchunks"] >= 2:
        ctx.probe("multi_chunk")
    if rel["inside"]:
        ctx.probe("cut_inside_group")
    if rel["after"]:
        ctx.probe("cut_right_after_group")
    if rel["single"]:
        ctx.probe("single_entry_chunk")
    if src.kind == "file":
        ctx.probe("file_backed")
    if case.multi:
        ctx.probe("multi_node_compute")
    if getattr(case, "empty_chromosome", False):
        ctx.probe("empty_chromosome")
    info = {}
    detail = {"case": case.describe(), "source": src.kind, "schedule": sched}
    if raised(got):
        if fault == "eio":
            ctx.probe("eio_surfaced")
            return
        if case.accept_raise is not None:
            p = case.accept_raise(info)
            if p:
                ctx.probe(p)
                return
        if small_k:
            ctx.probe("raise_small_k_accepted")   # chunk size below two entries: the reader may refuse (C01's rule)
            return
        detail["error"] = repr(got)
        detail["reference"] = core.short(ref, 600)
        raise Violation("stream_eq_memory", case.family + "." + case.op + ":raises", detail)
    if case.judge is not None:
        bad = case.judge(ref, got, info)
        if info.get("last_short"):
            ctx.probe("last_chunk_short")
        if bad is not None:
            kind, d = bad
            detail.update(d)
            raise Violation("rechunk", case.op + ":" + kind, detail)
        return
    if not core.same(ref, got):
        detail["streamed"] = core.short(got, 600)
        detail["in_memory"] = core.short(ref, 600)
        detail["first_difference"] = S.first_diff(ref, got)
        raise Violation("stream_eq_memory", case.family + "." + case.op + ":differs", detail)


def run(ctx):
    tape = ctx.tape
    thorough = ctx.tier == "thorough"      # exhaustive cut sets up to n = 10 (quick: 8)
    family = tape.weighted(FAMILIES, "family")
    source = tape.weighted([(3, "mem"), (2, "file")], "source")
    big = tape.boolean("big", 1, 6)
    exh_default = 10 if thorough else 8
    cap = 40 if big else (8 if (family == "genomic" and thorough) else (7 if family == "genomic" else exh_default))
    case = BUILDERS[family](ctx, tape, cap, source)
    n = case.n
    exh = min(case.exh or exh_default, exh_default)
    cutmode = tape.weighted(CUTMODES, "cutmode")
    fault = tape.weighted([(8, None), (1, "cancel"), (1, "eio")], "fault")
    if fault == "eio" and source == "mem":
        fault = None      # an I/O error needs a backing file
    final_newline = not tape.boolean("nofinal", 1, 4)
    starts = S.group_starts(case.keys)
    pulls = S.Pulls()
    table = call(S.make_table, case.kind, case.rows)
    if raised(table):
        raise Inconclusive(f"the in-memory table cannot be built: {case.kind}: {table.type}")
    ctx.scenario = {"case": case.describe(), "n": n, "source": source, "cutmode": cutmode, "fault": fault}

    def rewrite_fixed(**kw):
        d = {"cutmode": 0}
        d.update(kw)
        return d

    if source == "mem":
        fixed_mask = S.draw_mask(tape, n, "cut.mask")
        if cutmode == "all" and n > exh:
            cutmode = "sampled"
        masks = []
        if cutmode == "sampled":
            masks = [0, S.full_mask(n)]
            while len(masks) < 8 and tape.more("cuts.more", 2, 3):
                masks.append(S.draw_mask(tape, n, "cuts.mask"))
        ctx.scenario.update({"cutmode_effective": cutmode, "cut_sets": "all" if cutmode == "all" else
                             [S.cuts_of_mask(m, n) for m in ([fixed_mask] if cutmode == "fixed" else masks)]})
        base = S.MemSource(table, [], pulls)
        with core.quiet():
            ref = call(case.compute, base, False)
            if raised(ref):
                raise Inconclusive(f"in-memory reference raises: {case.family}.{case.op}: {ref.type}")
            ctx.trace["in_memory"] = core.short(ref, 400)
            single_chunk_baseline(case, base)
            if fault == "cancel":
                do_cancel(ctx, tape, case, base.with_cuts(S.cuts_of_mask(fixed_mask, n)))
            todo = S.all_masks(n) if cutmode == "all" else ([fixed_mask] if cutmode == "fixed" else masks)
            seen = set()
            for mask in todo:
                if mask in seen:
                    continue
                seen.add(mask)
                cuts = S.cuts_of_mask(mask, n)
                if case.op == "chunk_entries" and False and S.rechunk_backlog(S.sizes_of(cuts, n), case.params["m"]):
                    # KF-C11-chunk-entries-backlog (open): an input chunk that completes two or more output chunks
                    # at once is emitted as one oversized chunk.  Excluded in 90 % of the runs only.
                    ctx.probe("excluded_chunk_entries_backlog")
                    continue
                src = base.with_cuts(cuts)
                got = call(case.compute, src, True)
                try:
                    judge_one(ctx, case, src, ref, got, {"cuts": cuts}, S.relation(cuts, n, starts),
                              fault="cancel" if fault == "cancel" else None)
                except Violation as v:
                    v.rewrite = rewrite_fixed(**{"cut.mask": mask, "cut.mask.thin": 0})
                    raise
        ctx.steps += pulls.n
        ctx.note("C11", case.family, case.op, source, cutmode, n, ctx.evals, pulls.n)
        return

    # ---- file-backed source
    data = S.serialize(case.kind, case.rows, final_newline)
    size = len(data)
    big_entry = max(S.entry_sizes(case.kind, case.rows))
    path = "/sim/d" + S.SUFFIX[case.kind]
    explicit = False if family == "genomic" else not tape.boolean("default_knob", 1, 3)
    k_fixed = 1 + tape.draw(size + 2, "k")
    ks = []
    if cutmode == "sampled":
        ks = [size + 2, 1]
        while len(ks) < 8 and tape.more("ks.more", 2, 3):
            ks.append(1 + tape.draw(size + 2, "ks.k"))
    eio_nth = 1 + tape.draw(6, "eio.nth") if fault == "eio" else 0
    if fault == "eio" and cutmode == "all":
        cutmode = "fixed"
    ctx.scenario.update({"cutmode_effective": cutmode, "file": core.esc(data), "path": path, "size": size,
                         "explicit_k": explicit, "final_newline": final_newline,
                         "k": "all" if cutmode == "all" else ([k_fixed] if cutmode == "fixed" else ks),
                         "eio_nth": eio_nth})
    fs = simfs.SimFS(event_budget=400000 if cutmode == "all" else 40000)
    fs.put(path, data)
    buffer_name = "Bed6Buffer" if case.kind == "stranded" else None
    base = S.FileSource(path, size + 2, explicit, buffer_name)
    with simfs.Mount(fs), core.quiet():
        ref = call(case.compute, base, False)
        if raised(ref):
            raise Inconclusive(f"in-memory reference raises: {case.family}.{case.op} (file): {ref.type}")
        ctx.trace["in_memory"] = core.short(ref, 400)
        with core.chunk_knob(size + 2):
            single_chunk_baseline(case, base)
        if fault == "cancel":
            with core.chunk_knob(k_fixed):
                do_cancel(ctx, tape, case, base.with_k(k_fixed))
        todo = range(1, size + 3) if cutmode == "all" else ([k_fixed] if cutmode == "fixed" else ks)
        seen = set()
        first = True
        for k in todo:
            src = base.with_k(k)
            sizes = src.chunk_sizes()
            small_k = k < 2 * big_entry + 2
            if raised(sizes):
                if small_k:
                    ctx.probe("raise_small_k_accepted")
                    continue
                # the plain chunked read of the file fails, before any computation: C01's property, reported there
                ctx.probe("file_reader_raises_left_to_C01")
                continue
            if sum(sizes) != n:
                # the file-level reader lost or duplicated entries: C01's property, reported there
                ctx.probe("file_chunks_do_not_add_up")
                continue
            key = tuple(sizes)
            if key in seen and cutmode == "all":
                continue
            seen.add(key)
            if case.op == "chunk_entries" and False and S.rechunk_backlog(sizes, case.params["m"]):
                ctx.probe("excluded_chunk_entries_backlog")   # KF-C11-chunk-entries-backlog, see the mem branch
                continue
            ctx.steps += len(sizes)
            cuts = S.cuts_of_sizes(sizes)
            fired = False
            if fault == "eio" and first:
                fs.plant_eio(path, "read", eio_nth)
            first = False
            with core.chunk_knob(k):
                got = call(case.compute, src, True)
            if fs.fault_fired:
                for name, cnt in fs.fault_fired.items():
                    ctx.fault(name, cnt)
                fs.fault_fired.clear()
                fired = True
            fs.faults.clear()
            try:
                judge_one(ctx, case, src, ref, got, {"k": k, "chunk_sizes": sizes, "explicit_k": explicit},
                          S.relation(cuts, n, starts), fault="eio" if fired else ("cancel" if fault == "cancel" else None),
                          small_k=small_k)
            except Violation as v:
                v.rewrite = rewrite_fixed(k=k - 1)
                raise
    ctx.io_events += fs.seq
    ctx.note("C11", case.family, case.op, source, cutmode, n, ctx.evals, fs.seq, core.digest(fs.log))


def single_chunk_baseline(case, base):
    """Genomic pipelines are combinations of documented steps; not every combination works with stream=True at all
    (e.g. indexing a track with stranded intervals streamed from a file raises for every input).  The property is
    about the chunking, so a pipeline whose streamed form raises even when the whole table arrives as ONE chunk is
    not judged (inconclusive, listed by reason in the evidence); a one-chunk stream that returns a different VALUE is
    judged like any other chunking.  The simple documented functions of the other families get no such allowance."""
    if case.family != "genomic":
        return
    one = call(case.compute, base, True)
    if raised(one) and case.params.get("axis_form", "kw") != "kw":
        # the same reduction with the axis spelled as a keyword is the control: one spelling working and the other
        # raising is a difference between two forms of one computation, not an unsupported pipeline
        form = case.params["axis_form"]
        case.params["axis_form"] = "kw"
        control = call(case.compute, base, True)
        case.params["axis_form"] = form
        if not raised(control):
            raise Violation("stream_eq_memory", f"genomic.{case.op}:raises_for_this_axis_spelling",
                            {"case": case.describe() if hasattr(case, "describe") else case.op, "axis_form": form,
                             "error": repr(one)})
    if raised(one):
        raise Inconclusive(f"stream=True form raises even for a single chunk: {case.family}.{case.op} "
                           f"({base.kind}{', stranded' if case.params.get('stranded') else ''}): {one.type}")


def do_cancel(ctx, tape, case, src):
    """cancel fault: a consumer pulls some chunks of a stream over the same data (and builds a pipeline on another),
    then abandons both; the judged evaluations that follow use fresh streams and must be unaffected"""
    j = 1 + tape.draw(3, "cancel.pulls")

    def f():
        s = src.stream()
        got = 0
        for _ in range(j):
            if next(s, None) is None:
                break
            got += 1
        if case.abandon is not None:
            case.abandon(src)
        return got
    r = call(f)
    if not raised(r):
        ctx.fault("cancel")
        ctx.steps += r
