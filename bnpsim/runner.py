"""Run loop, workers, shrinking, replay, evidence.   Entry: /verif/check  ->  python -m is NOT used (script entry).

  runner.py check  <PROP> <quick|thorough>
  runner.py worker <PROP> <tier> <seed> <start> <stride> <count> <deadline_s> <outfile>
  runner.py replay <file>

Exit codes of `check`: 0 = held on everything explored (or only KNOWN-FINDING lines), 1 = VIOLATION line printed,
2 = ERROR (harness/model exception, wall guard, non-reproducible failure) — an error is never a pass.
"""
import faulthandler
import importlib
import json
import os
import subprocess
import sys
import time
import traceback

HERE = os.path.dirname(os.path.abspath(__file__))
VERIF = os.path.dirname(HERE)
sys.path[:] = [p for p in sys.path if os.path.abspath(p or ".") != HERE]
if VERIF not in sys.path:
    sys.path.insert(0, VERIF)

from bnpsim import core  # noqa: E402
from bnpsim.core import Violation, Inconclusive, RunCtx  # noqa: E402
from bnpsim.tape import Tape, rng_for, FEATURES as TAPE_FEATURES  # noqa: E402
from bnpsim import findings as KF  # noqa: E402
from bnpsim.simfs import ProgressBudgetExceeded  # noqa: E402

OUT = os.path.join(VERIF, "out")
PY = sys.executable

BUDGETS = {   # property -> tier -> (target runs, worker wall seconds)
    "default": {"quick": (4000, 40), "thorough": (60000, 900)},
}


def prop_module(prop):
    return importlib.import_module(f"bnpsim.props.{prop}")


def budget(mod, tier):
    b = getattr(mod, "BUDGET", None) or BUDGETS["default"]
    return b[tier]


# ---------------------------------------------------------------------------------------------
# one run

class Outcome:
    def __init__(self, status, ctx, viol=None, reason=None, tb=None):
        self.status = status      # ok | violation | inconclusive | error
        self.ctx = ctx
        self.viol = viol
        self.reason = reason
        self.tb = tb

    @property
    def klass(self):
        return self.viol.klass if self.viol is not None else None


def execute(mod, tier, tape, excl=True, literal=None):
    """a pure function of (code, tape values) — or of (code, literal scenario) for modules with generate/execute"""
    core.reset_process_globals()
    ctx = RunCtx(tape, tier, mod.ID, excl=excl)
    try:
        if hasattr(mod, "generate"):
            # scenario = the full decision record; execution is tape-free (round-trip through JSON so that search
            # and literal replay take exactly the same code path)
            sc = literal if literal is not None else json.loads(json.dumps(mod.generate(ctx), default=repr))
            ctx.scenario = sc
            ctx.tape = None
            mod.execute(ctx, sc)
        else:
            mod.run(ctx)
        return Outcome("ok", ctx)
    except Violation as v:
        return Outcome("violation", ctx, viol=v)
    except Inconclusive as e:
        return Outcome("inconclusive", ctx, reason=e.reason)
    except ProgressBudgetExceeded as e:
        v = Violation("progress", "event_budget", {"msg": str(e)})
        return Outcome("violation", ctx, viol=v)
    except Exception as e:  # harness or model defect: never a VIOLATION, never a pass
        return Outcome("error", ctx, reason=f"{type(e).__name__}: {e}", tb=traceback.format_exc())


def run_values(mod, tier, values, excl, features=None):
    return execute(mod, tier, Tape(values=values, features=features), excl=excl)


# ---------------------------------------------------------------------------------------------
# shrinking (tape level): keep a candidate only if the same violation class recurs

def shrink(mod, tier, values, klass, excl, max_exec=300, max_s=12.0):
    t0 = time.time()
    n_exec = [0]
    best = list(values)

    def ok(cand):
        if n_exec[0] >= max_exec or time.time() - t0 > max_s:
            return False
        n_exec[0] += 1
        o = run_values(mod, tier, cand, excl)
        return o.status == "violation" and o.klass == klass

    # trailing zeros are implicit
    def strip(v):
        while v and v[-1] == 0:
            v = v[:-1]
        return v

    best = strip(best)
    improved = True
    while improved and n_exec[0] < max_exec and time.time() - t0 <= max_s:
        improved = False
        # delete spans
        for span in (16, 8, 4, 2, 1):
            i = 0
            while i + span <= len(best):
                cand = best[:i] + best[i + span:]
                if ok(cand):
                    best = strip(cand)
                    improved = True
                else:
                    i += span
                if n_exec[0] >= max_exec:
                    break
        # zero, halve, decrement
        for i in range(len(best)):
            if i >= len(best) or best[i] == 0:
                continue
            for nv in (0, best[i] // 2, best[i] - 1):
                if nv == best[i]:
                    continue
                cand = best[:i] + [nv] + best[i + 1:]
                if ok(cand):
                    best = strip(cand) if i == len(best) - 1 else cand
                    improved = True
                    break
            if n_exec[0] >= max_exec:
                break
    return best, n_exec[0]


# ---------------------------------------------------------------------------------------------
# replay files

def repo_state():
    try:
        head = subprocess.run(["git", "-C", core.REPO, "rev-parse", "HEAD"], capture_output=True, text=True, timeout=20).stdout.strip()
        dirty = bool(subprocess.run(["git", "-C", core.REPO, "status", "--porcelain", "--untracked-files=no"],
                                    capture_output=True, text=True, timeout=20).stdout.strip())
        return head, dirty
    except Exception:
        return "unknown", False


def _trim(x, depth=0):
    """violation details are for the reader: very long lists / texts are cut (the scenario and the tape are what replays)"""
    if isinstance(x, dict):
        return {k: _trim(v, depth + 1) for k, v in x.items()}
    if isinstance(x, (list, tuple)):
        if len(x) > 200:
            return [_trim(v, depth + 1) for v in x[:40]] + [f"...({len(x)} items)"]
        return [_trim(v, depth + 1) for v in x]
    if isinstance(x, str) and len(x) > 6000:
        return x[:3000] + f"...({len(x)} characters)"
    return x


def write_replay(prop, tier, seed, index, excl, values, outcome, extra=None, directory=None):
    v = outcome.viol
    doc = {
        "property": prop, "tier": tier, "seed": seed, "index": index, "excl": excl,
        "hashseed": os.environ.get("PYTHONHASHSEED", ""),
        "tape": list(values), "tape_features": list(TAPE_FEATURES),
        "violation": {"oracle": v.oracle, "kind": v.kind, "detail": _trim(v.detail)},
        "scenario": outcome.ctx.scenario,
        "trace": outcome.ctx.trace,
        "repo": dict(zip(("head", "dirty"), repo_state())),
    }
    if extra:
        doc.update(extra)
    d = directory or os.path.join(OUT, "replays")
    os.makedirs(d, exist_ok=True)
    name = f"{prop}-{core.digest([prop, v.oracle, v.kind, list(values), excl, os.environ.get('PYTHONHASHSEED', '')])}.json"
    path = os.path.join(d, name)
    with open(path, "w") as f:
        json.dump(doc, f, indent=1, default=repr)
    return path


def replay_file(path):
    """re-execute the tape; -> (reproduced: bool, outcome, doc)"""
    with open(path) as f:
        doc = json.load(f)
    mod = prop_module(doc["property"])
    if hasattr(mod, "execute") and doc.get("scenario") is not None:
        o = execute(mod, doc.get("tier", "quick"), Tape(values=[]), excl=doc.get("excl", True), literal=doc["scenario"])
    else:
        o = run_values(mod, doc.get("tier", "quick"), doc["tape"], doc.get("excl", True), features=doc.get("tape_features", []))
    want = (doc["violation"]["oracle"], doc["violation"]["kind"])
    return (o.status == "violation" and o.klass == want), o, doc


def cmd_replay(path):
    doc0 = json.load(open(path))
    want_hs = doc0.get("hashseed", "")
    if want_hs != "" and os.environ.get("PYTHONHASHSEED", "") != want_hs:
        env = dict(os.environ, PYTHONHASHSEED=want_hs)
        return subprocess.call([PY, os.path.abspath(__file__), "replay", path], env=env)
    rep, o, doc = replay_file(path)
    mod = prop_module(doc["property"])
    if (not hasattr(mod, "execute")) and doc.get("scenario") and \
            json.loads(json.dumps(o.ctx.scenario, default=repr)) != doc["scenario"] and not rep:
        # the generators changed since the file was written: the tape no longer denotes the recorded scenario
        print(f"ERROR replay of {path}: scenario drift (generator code changed since the replay file was written)")
        return 3
    if rep:
        print(f"VIOLATION property={doc['property']} replay={path}")
        print(f"  oracle={o.viol.oracle} kind={o.viol.kind}")
        print("  detail=" + core.short(o.viol.detail, 1500))
        return 1
    if o.status == "error":
        print(f"ERROR replay of {path}: {o.reason}\n{o.tb}")
        return 2
    print(f"replay of {path}: not reproduced (status={o.status}" + (f", class={o.klass}" if o.viol else "") + ")")
    return 0


# ---------------------------------------------------------------------------------------------
# worker

def cmd_worker(prop, tier, seed, start, stride, count, deadline_s, outfile):
    mod = prop_module(prop)
    t0 = time.time()
    out = open(outfile, "w")

    def emit(d):
        out.write(json.dumps(d, default=repr) + "\n")
        out.flush()

    agg = {"runs": 0, "ok": 0, "inconclusive": {}, "evals": 0, "steps": 0, "io_events": 0, "probes": {}, "faults": {},
           "states": set(), "known": {}, "samples": [], "digests": [], "nontrivial_runs": 0}
    n_viol = 0
    i = start
    while i < count:
        if time.time() - t0 > deadline_s:
            agg["truncated"] = True
            break
        faulthandler.dump_traceback_later(180, exit=True)
        excl = (i % 10 != 0)
        tape = Tape(rng=rng_for(seed, prop, i))
        o = execute(mod, tier, tape, excl=excl)
        ctx = o.ctx
        agg["runs"] += 1
        agg["evals"] += ctx.evals
        agg["steps"] += ctx.steps
        agg["io_events"] += ctx.io_events
        for k, v in ctx.probes.items():
            agg["probes"][k] = agg["probes"].get(k, 0) + v
        for k, v in ctx.faults.items():
            agg["faults"][k] = agg["faults"].get(k, 0) + v
        agg["states"] |= ctx.states
        if len(agg["samples"]) < 3 and ctx.scenario and start == 0:
            agg["samples"].append({"run_index": i, "status": o.status, "scenario": ctx.scenario})
        agg["digests"].append((i, core.digest([o.status, ctx.transcript, sorted(ctx.states), o.klass])))
        if o.status == "ok":
            agg["ok"] += 1
        elif o.status == "inconclusive":
            agg["inconclusive"][o.reason] = agg["inconclusive"].get(o.reason, 0) + 1
        elif o.status == "error":
            emit({"type": "error", "index": i, "reason": o.reason, "tb": o.tb, "tape": tape.values()})
            faulthandler.cancel_dump_traceback_later()
            break
        else:
            faulthandler.cancel_dump_traceback_later()
            faulthandler.dump_traceback_later(600, exit=True)
            values = tape.rewrite(o.viol.rewrite) if o.viol.rewrite else tape.values()
            klass = o.klass
            o2 = run_values(mod, tier, values, excl)
            if not (o2.status == "violation" and o2.klass == klass):
                # the re-expression did not reproduce: fall back to the literal tape
                values = tape.values()
                o2 = run_values(mod, tier, values, excl)
            if not (o2.status == "violation" and o2.klass == klass):
                emit({"type": "error", "index": i, "reason": "non-reproducible in-process: " + repr(klass) + " then " +
                      o2.status + " " + repr(o2.klass), "tape": tape.values()})
                break
            small, n_exec = shrink(mod, tier, values, klass, excl)
            o3 = run_values(mod, tier, small, excl)
            if not (o3.status == "violation" and o3.klass == klass):
                small, o3 = values, o2
            kf = KF.match(prop, o3.viol, o3.ctx.scenario)
            if kf is not None:
                agg["known"][kf] = agg["known"].get(kf, 0) + 1
            else:
                path = write_replay(prop, tier, seed, i, excl, small, o3,
                                    extra={"shrink_executions": n_exec, "original_tape_len": len(tape.values())})
                emit({"type": "violation", "index": i, "klass": list(klass), "replay": path,
                      "detail": core.short(o3.viol.detail, 1200)})
                n_viol += 1
                if n_viol >= 2:
                    break
        faulthandler.cancel_dump_traceback_later()
        i += stride
    agg["states"] = sorted(agg["states"])
    agg["wall"] = time.time() - t0
    emit({"type": "done", "agg": agg})
    out.close()
    return 0


# ---------------------------------------------------------------------------------------------
# parent

def fresh_replay(path, hashseed=None):
    env = dict(os.environ)
    if hashseed is not None:
        env["PYTHONHASHSEED"] = str(hashseed)
    p = subprocess.run([PY, os.path.abspath(__file__), "replay", path], capture_output=True, text=True, env=env, timeout=900)
    rc = p.returncode
    if rc == 1 and "VIOLATION property=" not in p.stdout:
        rc = 2   # exit status 1 without a VIOLATION line is a crash, not a reproduced violation
    return rc, p.stdout + p.stderr


def cmd_check(prop, tier):
    t0 = time.time()
    tier = os.environ.get("VERIF_TIER", tier) or tier
    if tier not in ("quick", "thorough"):
        tier = "quick"
    seed = int(os.environ.get("VERIF_SEED", "0") or 0)
    mod = prop_module(prop)
    runs, wall = budget(mod, tier)
    if os.environ.get("BNPSIM_RUNS"):
        runs = int(os.environ["BNPSIM_RUNS"])
    nproc = int(os.environ.get("BNPSIM_WORKERS", "0") or 0) or min(16, os.cpu_count() or 1)
    os.makedirs(os.path.join(OUT, "tmp"), exist_ok=True)
    exit_code = 0
    lines = []

    # 1. stored reproducers of known findings (open: must still fail -> KNOWN-FINDING line; fixed: must pass)
    kf_report = []
    from concurrent.futures import ThreadPoolExecutor
    todo = [(e, os.path.join(VERIF, e["reproducer"])) for e in KF.entries(prop) if e.get("reproducer")]
    with ThreadPoolExecutor(max_workers=8) as ex:     # each replay is its own fresh interpreter
        replayed = list(ex.map(lambda t: fresh_replay(t[1]), todo))
    for (entry, rp), (rc, outp) in zip(todo, replayed):
        if rc == 3:
            # tape-based reproducer of a run()-style module whose generators changed since it was stored: it no longer
            # denotes the recorded scenario. Reported, never an error of the check and never a pass of the scenario.
            lines.append(f"NOTE stored reproducer {entry['id']} is stale (generators changed since it was recorded); not replayed")
            if entry["status"] == "open":
                lines.append(f"KNOWN-FINDING: property={prop} {entry['id']}: {entry['what']} (stored reproducer stale)")
            kf_report.append({"id": entry["id"], "stale": True})
            continue
        if entry["status"] == "open":
            if rc == 1:
                lines.append(f"KNOWN-FINDING: property={prop} {entry['id']}: {entry['what']}")
                kf_report.append({"id": entry["id"], "still_fails": True})
            elif rc == 0:
                lines.append(f"KNOWN-FINDING-GONE: property={prop} {entry['id']} no longer reproduces")
                kf_report.append({"id": entry["id"], "still_fails": False})
            else:
                lines.append(f"ERROR replaying stored reproducer {rp}:\n{outp[-2000:]}")
                exit_code = 2
        else:  # fixed: an ordinary regression scenario that must pass
            if rc == 1:
                lines.append(f"VIOLATION property={prop} replay={rp}")
                lines.append(f"  (regression of fixed finding {entry['id']}: {entry['what']})")
                exit_code = max(exit_code, 1) if exit_code != 2 else 2
                kf_report.append({"id": entry["id"], "regressed": True})
            elif rc == 0:
                kf_report.append({"id": entry["id"], "regressed": False})
            else:
                lines.append(f"ERROR replaying stored reproducer {rp}:\n{outp[-2000:]}")
                exit_code = 2

    # 2. seeded search
    hashseeds = getattr(mod, "HASHSEEDS", None)
    if hashseeds:
        # PYTHONHASHSEED is a sampled configuration: run index i always executes under hashseeds[i % len]; workers are
        # interpreters with a fixed hash seed, so their number is kept a multiple of len (independent of BNPSIM_WORKERS)
        m = len(hashseeds(seed))
        nproc = max(m, nproc - nproc % m)
    procs = []
    for w in range(nproc):
        outfile = os.path.join(OUT, "tmp", f"{prop}-{tier}-{seed}-{os.getpid()}-{w}.jsonl")   # pid: concurrent checks must not share files
        if os.path.exists(outfile):
            os.remove(outfile)
        env = dict(os.environ, BNPSIM_REPO=core.REPO)
        env["PYTHONHASHSEED"] = str(hashseeds(seed)[w % len(hashseeds(seed))]) if hashseeds else "0"
        cmd = [PY, os.path.abspath(__file__), "worker", prop, tier, str(seed), str(w), str(nproc), str(runs), str(wall), outfile]
        errfile = open(outfile + ".err", "w")
        procs.append((w, subprocess.Popen(cmd, env=env, stdout=errfile, stderr=errfile), outfile, errfile))
    guard = wall * 2 + 700
    aggs, violations, errors = [], [], []
    for w, p, outfile, errfile in procs:
        try:
            p.wait(timeout=max(5, guard - (time.time() - t0)))
        except subprocess.TimeoutExpired:
            p.kill()
            errors.append(f"worker {w} exceeded the wall guard and was killed")
        errfile.close()
        done = False
        if os.path.exists(outfile):
            for line in open(outfile):
                try:
                    d = json.loads(line)
                except Exception:
                    continue
                if d["type"] == "done":
                    aggs.append(d["agg"])
                    done = True
                elif d["type"] == "violation":
                    violations.append(d)
                elif d["type"] == "error":
                    errors.append(f"worker {w} run {d['index']}: {d['reason']}\n{d.get('tb') or ''}")
        if done:
            for fn in (outfile, outfile + ".err"):
                try:
                    os.remove(fn)
                except OSError:
                    pass
        if not done and not any(str(w) in e.split(" ")[1:2] for e in errors):
            tail = ""
            try:
                tail = open(outfile + ".err").read()[-1500:]
            except Exception:
                pass
            errors.append(f"worker {w} died without a result (rc={p.returncode})\n{tail}")

    # 3. confirm each violation class once in a fresh interpreter
    seen = set()
    n_viol = 0
    for d in sorted(violations, key=lambda d: d["index"]):
        k = tuple(d["klass"])
        if k in seen:
            continue
        seen.add(k)
        rc, outp = fresh_replay(d["replay"])
        if rc == 1:
            lines.append(f"VIOLATION property={prop} replay={d['replay']}")
            lines.append(f"  class={k} seed={seed} run_index={d['index']} detail={d['detail'][:600]}")
            n_viol += 1
            if exit_code != 2:
                exit_code = 1
        else:
            errors.append(f"non-reproducible in a fresh interpreter: {d['replay']} (rc={rc})\n{outp[-800:]}")
    if errors:
        exit_code = 2
        for e in errors:
            lines.append("ERROR " + e)

    # 4. evidence
    ev = build_evidence(mod, prop, tier, seed, aggs, n_viol, kf_report, time.time() - t0, nproc, errors)
    # evidence belongs to /repo itself; runs against another tree (BNPSIM_REPO=<scratch copy>, used for sensitivity
    # tests) must not overwrite it
    evdir = os.path.join(VERIF, "evidence") if os.path.abspath(core.REPO) == "/repo" else \
        os.path.join(OUT, "evidence-" + os.path.basename(os.path.abspath(core.REPO)))
    if os.environ.get("BNPSIM_EVIDENCE_DIR"):      # self-tests run shortened checks: their evidence must not replace the real one
        evdir = os.environ["BNPSIM_EVIDENCE_DIR"]
    os.makedirs(evdir, exist_ok=True)
    with open(os.path.join(evdir, f"{prop}.json"), "w") as f:
        json.dump(ev, f, indent=1, default=repr)
    for line in lines:
        print(line)
    cov = ev["coverage"]
    print(f"{prop} {tier} seed={seed}: runs={cov['runs']} evaluations={cov['evaluations']} distinct={cov['distinct_nontrivial']} "
          f"violations={n_viol} known_hits={cov['known_findings_hit']} inconclusive={sum(cov['inconclusive'].values())} "
          f"wall={ev['wall_s']:.1f}s exit={exit_code}")
    return exit_code


def build_evidence(mod, prop, tier, seed, aggs, n_viol, kf_report, wall, nproc, errors):
    def merge(key):
        out = {}
        for a in aggs:
            for k, v in a.get(key, {}).items():
                out[k] = out.get(k, 0) + v
        return dict(sorted(out.items()))
    states = set()
    for a in aggs:
        states |= set(a.get("states", []))
    runs = sum(a["runs"] for a in aggs)
    evals = sum(a["evals"] for a in aggs)
    samples = []
    for a in aggs:
        samples.extend(a.get("samples", []))
    digests = sorted((tuple(x) for a in aggs for x in a.get("digests", [])))
    cov = {
        "evaluations": max(evals, runs),
        "distinct_nontrivial": len(states),
        "rule": getattr(mod, "RULE", ""),
        "samples": samples[:3] or [{"note": "no scenario recorded"}],
        "runs": runs,
        "seeds": {"VERIF_SEED": seed, "run_indices": [0, max((d[0] for d in digests), default=-1)], "derivation": "sha256(seed/property/index)"},
        "runs_per_hour": int(runs / wall * 3600) if wall > 0 else 0,
        "logical_steps": sum(a["steps"] for a in aggs),
        "simulated_time": "no clock in the system under simulation; logical steps and fs events are the time measure",
        "io_events": sum(a["io_events"] for a in aggs),
        "fault_counts": merge("faults"),
        "probe_hits": merge("probes"),
        "inconclusive": merge("inconclusive"),
        "known_findings_hit": merge("known"),
        "known_findings_replayed": kf_report,
        "truncated_by_wall_cap": any(a.get("truncated") for a in aggs),
        "workers": nproc,
        "components": {"real": ["bionumpy@" + repo_state()[0][:12] + (" (dirty)" if repo_state()[1] else ""), "numpy", "npstructures", "gzip/zlib"],
                       "stub": ["file system (SimFS at /sim/)"]},
        "determinism_digest": core.digest(digests),
        "errors": errors[:5],
    }
    return {"property_id": prop, "tier": tier, "seed": seed, "level": getattr(mod, "LEVEL", "exploration"),
            "coverage": cov,
            "assumptions": getattr(mod, "ASSUMPTIONS", ["reference models in bnpsim/models are correct renderings of the format specs",
                                                         "SimFS implements the BufferedReader/Writer contract (full reads before EOF)"]),
            "wall_s": round(wall, 2), "violations": n_viol}


def cmd_digests(prop, tier, seed, n):
    """determinism self-test helper: digests of runs 0..n-1, each executed twice in-process"""
    mod = prop_module(prop)
    out = []
    for i in range(n):
        ds = []
        for _ in range(2):
            o = execute(mod, tier, Tape(rng=rng_for(seed, prop, i)), excl=(i % 10 != 0))
            ds.append(core.digest([o.status, o.ctx.transcript, sorted(o.ctx.states), o.klass, o.ctx.evals, o.ctx.steps]))
        if ds[0] != ds[1]:
            print(json.dumps({"error": f"run {i} differs between two in-process executions"}))
            return 1
        out.append(ds[0])
    print(json.dumps({"digests": out}))
    return 0


def main(argv):
    if len(argv) < 2:
        print(__doc__)
        return 2
    if argv[1] == "digests":
        return cmd_digests(argv[2], argv[3], int(argv[4]), int(argv[5]))
    if argv[1] == "check":
        return cmd_check(argv[2], argv[3] if len(argv) > 3 else "quick")
    if argv[1] == "worker":
        return cmd_worker(argv[2], argv[3], int(argv[4]), int(argv[5]), int(argv[6]), int(argv[7]), float(argv[8]), argv[9])
    if argv[1] == "replay":
        return cmd_replay(argv[2])
    print(__doc__)
    return 2


if __name__ == "__main__":
    try:
        rc = main(sys.argv)
    except SystemExit:
        raise
    except BaseException:  # a crash of the harness is an ERROR (2), never a VIOLATION (1) and never a pass (0)
        traceback.print_exc()
        print("ERROR harness crashed")
        rc = 2
    sys.exit(rc)
