"""Decision tape: every choice of a run is drawn through one object.

search mode : values come from random.Random(sha256(seed, property, run_index)) and are recorded
replay mode : values come from a stored list (clipped into range; exhausted => 0)

Generators are written so that 0 is always the simplest choice.
Logging never draws from the tape.
"""
import hashlib
import random


def rng_for(seed, prop, index):
    h = hashlib.sha256(f"{seed}/{prop}/{index}".encode()).digest()
    return random.Random(int.from_bytes(h[:16], "big"))


# Generator decisions added after tape-style replay files were stored are guarded by `tape.feature(name)`: a replay file
# lists the features that existed when it was written, a stored tape is replayed with exactly those (the guarded
# decisions are skipped without consuming a tape position), so old tapes keep denoting the same scenario.
FEATURES = ["bam_clone_record", "bam_repeat_selection", "bam_many_cigar_ops", "c11_axis_form", "c17_large_batch", "bam_two_step_selection", "bam_two_step_general"]


class Tape:
    def __init__(self, rng=None, values=None, features=None):
        assert (rng is None) != (values is None)
        self._features = None if features is None else set(features)
        self._rng = rng
        self._values = list(values) if values is not None else None
        self._pos = 0
        self.record = []  # (label, n, value)

    @property
    def replaying(self):
        return self._values is not None

    def feature(self, name):
        assert name in FEATURES, name
        return self._features is None or name in self._features

    def draw(self, n, label=""):
        """int in [0, n)"""
        if n <= 1:
            v = 0
            # still consumes a position so that alignment is stable
            if self._values is not None:
                self._pos += 1
            self.record.append((label, max(n, 1), 0))
            return 0
        if self._values is not None:
            if self._pos < len(self._values):
                v = self._values[self._pos]
                if v < 0:
                    v = 0
                if v >= n:
                    v = n - 1
            else:
                v = 0
            self._pos += 1
        else:
            v = self._rng.randrange(n)
        self.record.append((label, n, v))
        return v

    def boolean(self, label="", p_num=1, p_den=2):
        """True with probability p_num/p_den in search mode; 0 == False is the simple choice."""
        return self.draw(p_den, label) >= (p_den - p_num)

    def choice(self, seq, label=""):
        return seq[self.draw(len(seq), label)]

    def weighted(self, pairs, label=""):
        """pairs: [(weight, item)], first item is the simplest. Integer weights."""
        total = sum(w for w, _ in pairs)
        v = self.draw(total, label)
        acc = 0
        for w, item in pairs:
            acc += w
            if v < acc:
                return item
        return pairs[-1][1]

    def more(self, label="more", p_num=3, p_den=4):
        return self.boolean(label, p_num, p_den)

    def int_between(self, lo, hi, label=""):
        """inclusive; lo is simplest"""
        return lo + self.draw(hi - lo + 1, label)

    def values(self):
        return [v for (_, _, v) in self.record]

    def rewrite(self, overrides):
        """Return the recorded values with the first occurrence of each label replaced."""
        vals = self.values()
        done = set()
        for i, (label, n, v) in enumerate(self.record):
            if label in overrides and label not in done:
                vals[i] = overrides[label]
                done.add(label)
        return vals
