"""SimFS: an in-memory file system mounted at /sim/, with an event log and fault injection.

Handles implement the part of the io.BufferedReader/Writer contract bionumpy relies on:
read(n) returns n bytes unless at EOF (never a short read before EOF), read(), readinto,
readline / iteration, seek(off, whence), tell, write (all or error), flush, close, name, mode,
context manager.  Data becomes durable (visible to a later open) at flush/close.

Every handle call is appended to the event log with a global sequence number.
"""
import builtins
import errno
import io
import os

ROOT = "/sim/"


class ProgressBudgetExceeded(Exception):
    """deterministic progress budget: too many fs events in one run"""


class SimFS:
    def __init__(self, event_budget=20000):
        self.files = {}       # path -> bytes (durable content)
        self.log = []         # (seq, handle_id, path, op, arg, result_len, pos_before, pos_after)
        self.seq = 0
        self.nhandles = 0
        self.faults = {}      # path -> dict(kind='eio', op='read'|'write', nth=int)  (one shot)
        self.fault_fired = {}  # kind -> count
        self.event_budget = event_budget
        self.open_handles = []

    # -- helpers
    def put(self, path, data):
        assert path.startswith(ROOT)
        self.files[path] = bytes(data)

    def get(self, path):
        return self.files[path]

    def exists(self, path):
        return path in self.files

    def event(self, hid, path, op, arg, rlen, p0, p1):
        self.seq += 1
        self.log.append((self.seq, hid, path, op, arg, rlen, p0, p1))
        if self.seq > self.event_budget:
            raise ProgressBudgetExceeded(f"more than {self.event_budget} file-system events in one run")

    def plant_eio(self, path, op, nth):
        self.faults[path] = {"kind": "eio", "op": op, "nth": nth, "count": 0}

    def _maybe_fault(self, path, op):
        f = self.faults.get(path)
        if f and f["op"] == op:
            f["count"] += 1
            if f["count"] == f["nth"]:
                del self.faults[path]
                self.fault_fired["eio_" + op] = self.fault_fired.get("eio_" + op, 0) + 1
                raise OSError(errno.EIO, "simulated I/O error", path)

    def open(self, path, mode="r", *args, **kwargs):
        if "b" not in mode:
            # text mode: used by the library only for small index / size files; served through a
            # TextIOWrapper over a binary handle
            raw = self.open(path, mode.replace("t", "") + "b")
            return io.TextIOWrapper(_RawAdapter(raw), encoding=kwargs.get("encoding") or "utf-8",
                                    newline=kwargs.get("newline"))
        m = mode.replace("b", "")
        if m in ("r",):
            if path not in self.files:
                raise FileNotFoundError(errno.ENOENT, "No such file or directory", path)
            h = SimHandle(self, path, "rb", self.files[path], 0)
        elif m in ("w", "x"):
            self.files[path] = b""
            h = SimHandle(self, path, "wb", b"", 0)
        elif m == "a":
            cur = self.files.get(path, b"")
            self.files[path] = cur
            h = SimHandle(self, path, "ab", cur, len(cur))
        elif m in ("r+", "w+", "a+"):
            raise io.UnsupportedOperation("SimFS: update modes not supported: " + mode)
        else:
            raise ValueError("bad mode " + mode)
        self.open_handles.append(h)
        self.event(h.hid, path, "open:" + h.mode, 0, 0, h._pos, h._pos)
        return h


class SimHandle:
    """binary handle on a SimFS file"""

    def __init__(self, fs, path, mode, data, pos):
        self.fs = fs
        fs.nhandles += 1
        self.hid = fs.nhandles
        self.name = path
        self.mode = mode
        self._buf = bytearray(data)
        self._pos = pos
        self.closed = False

    # -- capability
    def readable(self):
        return self.mode == "rb"

    def writable(self):
        return self.mode in ("wb", "ab")

    def seekable(self):
        return True

    def fileno(self):
        raise io.UnsupportedOperation("fileno")

    def isatty(self):
        return False

    def _check(self):
        if self.closed:
            raise ValueError("I/O operation on closed file.")

    # -- reading
    def read(self, n=-1):
        self._check()
        if not self.readable():
            raise io.UnsupportedOperation("not readable")
        self.fs._maybe_fault(self.name, "read")
        p0 = self._pos
        if n is None or n < 0:
            out = bytes(self._buf[p0:])
        else:
            out = bytes(self._buf[p0:p0 + n])
        self._pos = p0 + len(out)
        self.fs.event(self.hid, self.name, "read", -1 if n is None else n, len(out), p0, self._pos)
        return out

    read1 = read

    def readinto(self, b):
        mv = memoryview(b).cast("B")
        data = self.read(len(mv))
        mv[:len(data)] = data
        return len(data)

    def peek(self, n=0):
        self._check()
        return bytes(self._buf[self._pos:self._pos + max(n, 1)])

    def readline(self, limit=-1):
        self._check()
        if not self.readable():
            raise io.UnsupportedOperation("not readable")
        self.fs._maybe_fault(self.name, "read")
        p0 = self._pos
        i = self._buf.find(b"\n", p0)
        end = len(self._buf) if i < 0 else i + 1
        if limit is not None and limit >= 0:
            end = min(end, p0 + limit)
        out = bytes(self._buf[p0:end])
        self._pos = end
        self.fs.event(self.hid, self.name, "readline", limit, len(out), p0, self._pos)
        return out

    def readlines(self, hint=-1):
        return list(self)

    def __iter__(self):
        return self

    def __next__(self):
        line = self.readline()
        if not line:
            raise StopIteration
        return line

    # -- positioning
    def seek(self, off, whence=0):
        self._check()
        p0 = self._pos
        if whence == 0:
            new = off
        elif whence == 1:
            new = p0 + off
        elif whence == 2:
            new = len(self._buf) + off
        else:
            raise ValueError("whence")
        if new < 0:
            raise OSError(errno.EINVAL, "Invalid argument")
        self._pos = new
        self.fs.event(self.hid, self.name, "seek", (off, whence), 0, p0, new)
        return new

    def tell(self):
        self._check()
        return self._pos

    # -- writing
    def write(self, data):
        self._check()
        if not self.writable():
            raise io.UnsupportedOperation("not writable")
        self.fs._maybe_fault(self.name, "write")
        data = bytes(data)
        p0 = len(self._buf)  # both 'wb' (never seeks) and 'ab' write at the end
        self._buf += data
        self._pos = len(self._buf)
        self.fs.event(self.hid, self.name, "write", len(data), len(data), p0, self._pos)
        return len(data)

    def flush(self):
        if self.closed:
            return
        if self.writable():
            self.fs.files[self.name] = bytes(self._buf)
            self.fs.event(self.hid, self.name, "flush", 0, 0, self._pos, self._pos)

    def close(self):
        if self.closed:
            return
        self.flush()
        self.fs.event(self.hid, self.name, "close", 0, 0, self._pos, self._pos)
        self.closed = True

    def __enter__(self):
        self._check()
        return self

    def __exit__(self, *a):
        self.close()

    def __del__(self):
        # CPython closes (and thereby flushes) a file object when its last reference goes away, and the library
        # relies on that when it writes index files (`bnp_open(fai, "w").write(index)` without close): make the
        # data durable, but never log from a finaliser (it would perturb the event log)
        try:
            if not self.closed and self.writable():
                self.fs.files[self.name] = bytes(self._buf)
        except Exception:
            pass
        self.closed = True


class _RawAdapter(io.RawIOBase):
    """lets io.TextIOWrapper sit on a SimHandle"""

    def __init__(self, h):
        self._h = h

    def readable(self):
        return self._h.readable()

    def writable(self):
        return self._h.writable()

    def seekable(self):
        return False

    def readinto(self, b):
        return self._h.readinto(b)

    def write(self, b):
        return self._h.write(b)

    def flush(self):
        if not self.closed:
            self._h.flush()

    def close(self):
        if not self.closed:
            try:
                self._h.close()
            finally:
                super().close()

    @property
    def name(self):
        return self._h.name


class Mount:
    """context manager that routes /sim/ paths of builtins.open and os.path.isfile/exists/getsize to a SimFS"""

    def __init__(self, fs):
        self.fs = fs

    def __enter__(self):
        fs = self.fs
        self._open = builtins.open
        self._isfile = os.path.isfile
        self._exists = os.path.exists
        real_open, real_isfile, real_exists = self._open, self._isfile, self._exists

        def sim_open(file, mode="r", *args, **kwargs):
            p = _as_sim_path(file)
            if p is not None:
                return fs.open(p, mode, *args, **kwargs)
            return real_open(file, mode, *args, **kwargs)

        def sim_isfile(path):
            p = _as_sim_path(path)
            if p is not None:
                return fs.exists(p)
            return real_isfile(path)

        def sim_exists(path):
            p = _as_sim_path(path)
            if p is not None:
                return fs.exists(p)
            return real_exists(path)

        self._getsize = os.path.getsize
        real_getsize = self._getsize

        def sim_getsize(path):
            p = _as_sim_path(path)
            if p is not None:
                if not fs.exists(p):
                    raise FileNotFoundError(p)
                return len(fs.files[p])
            return real_getsize(path)

        builtins.open = sim_open
        os.path.isfile = sim_isfile
        os.path.exists = sim_exists
        os.path.getsize = sim_getsize
        return fs

    def __exit__(self, *a):
        builtins.open = self._open
        os.path.isfile = self._isfile
        os.path.exists = self._exists
        os.path.getsize = self._getsize
        for h in self.fs.open_handles:
            h.closed = True
        return False


def _as_sim_path(file):
    try:
        s = os.fspath(file)
    except TypeError:
        return None
    if isinstance(s, bytes):
        try:
            s = s.decode()
        except Exception:
            return None
    if isinstance(s, str) and s.startswith(ROOT):
        return s
    return None
