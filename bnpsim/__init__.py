"""bnpsim: deterministic simulation with fault injection for bionumpy (see /verif/DESIGN.md)."""
