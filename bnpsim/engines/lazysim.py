"""lazysim: operation histories on lazily / eagerly read tables, with a row model.

A *program* is a JSON list of operations over table variables v0..vn.  The initial variables are the chunks of
one read of a model-generated file on SimFS (whole read = one chunk).  Each op either creates a new variable
(sel, concat, replace) or observes one (get, len, tolist, item, write).

World.run(program prefix) replays the ops on freshly read tables — all observation for the C20 bracket is done
at the end of a fresh replay, so that observing never disturbs what is being observed.
"""
import numpy as np

from .. import core, simfs
from ..core import call, raised, plain, Raised
from ..models import text as T
from . import iosim

REPLACEABLE = ("int", "sint", "pos1", "float", "id", "str1", "seq", "hdr")


# ---------------------------------------------------------------------------------------------
# model side

class MVar:
    """model of a table variable: rows = [(record index, {field: replacement text})]"""

    def __init__(self, rows, selection_only=True, chunk=None, replaced_cols=()):
        self.rows = rows
        self.selection_only = selection_only   # obtained from ONE read by selections only
        self.chunk = chunk                     # index of the originating read chunk when selection_only
        # columns replaced in any operand this variable was built from: "only the replaced columns change" —
        # such a column may be re-serialised (compared by value) also in rows whose value was not replaced
        self.replaced_cols = set(replaced_cols)

    def __len__(self):
        return len(self.rows)


def norm_index(idx, n):
    """positions selected by an index descriptor on a table of n rows (NumPy semantics)"""
    k = idx["kind"]
    if k == "slice":
        return list(range(n))[slice(idx["a"], idx["b"], idx["c"])]
    if k == "mask":
        return [i for i, b in enumerate(idx["bits"][:n]) if b]
    if k == "ints":
        return [v if v >= 0 else n + v for v in idx["vals"]]
    raise KeyError(k)


def gen_index(tape, n, label):
    """an index descriptor valid for a table of n rows; 0 = simplest (full slice)"""
    kind = tape.weighted([(3, "slice"), (2, "mask"), (3, "ints")], label + ".kind")
    if kind == "slice" or n == 0:
        form = tape.weighted([(2, "all"), (2, "head"), (2, "tail"), (2, "mid"), (1, "step"), (1, "rev")], label + ".form")
        a = b = c = None
        if form == "head":
            b = tape.draw(n + 1, label + ".b")
        elif form == "tail":
            a = tape.draw(n + 1, label + ".a")
        elif form == "mid":
            a = tape.draw(n + 1, label + ".a")
            b = a + tape.draw(n + 1 - a, label + ".b")
        elif form == "step":
            c = 2 + tape.draw(2, label + ".c")
            a = tape.draw(max(n, 1), label + ".a")
        elif form == "rev":
            c = -1
        return {"kind": "slice", "a": a, "b": b, "c": c}
    if kind == "mask":
        d = {"kind": "mask", "bits": [bool(tape.draw(2, label + ".bit")) for _ in range(n)]}
        if tape.boolean(label + ".as_list", 1, 4):
            d["as_list"] = True           # the mask is handed over as a plain Python list of bools
        return d
    m = tape.weighted([(2, 1), (3, 2), (2, 3), (1, 5)], label + ".m")
    vals = []
    for _ in range(m):
        v = tape.draw(n, label + ".v")
        if tape.boolean(label + ".neg", 1, 5):
            v = v - n
        vals.append(v)
    return {"kind": "ints", "vals": vals}


def gen_replacement_text(tape, kind, label):
    if kind in ("int", "pos1"):
        return str(int(T.gen_int(tape, label, False, maxw=9)) + (1 if kind == "pos1" else 0))
    if kind == "sint":
        return str(int(T.gen_int(tape, label, False, maxw=6, signed=True)))
    if kind == "float":
        return tape.choice(["0.5", "12.25", "-3.75", "100.0", "7.0"], label)
    if kind == "seq":
        return T.gen_seq(tape, label, maxlen=9)
    return T.gen_id(tape, label)


_ASSIGNABLE = {}


def assignable_fields(fmt):
    """fields whose DECLARED type in the entry class is int, float or str: exactly what replacement_array builds, so an
    attribute assignment (which converts nothing, in either mode) stores a value of the declared type"""
    if fmt.name not in _ASSIGNABLE:
        core.bnp()
        import dataclasses
        import bionumpy.datatypes as dt
        cls = getattr(dt, fmt.dataclass)
        _ASSIGNABLE[fmt.name] = {f.name for f in dataclasses.fields(cls) if f.type in (int, float, str)}
    return _ASSIGNABLE[fmt.name]


# writers of another format that accept the entry type (FASTQ reads to FASTA, wide BED rows to .bed, ...): used by the
# lazy/eager twin only (there is no row model of the converted bytes; the two modes must agree with each other)
# Only conversions between the sequence formats are meaningful (reads with qualities written as FASTA; FASTA written as
# FASTQ must fail in both modes): a VCF or SAM table handed to a BED or FASTA writer is not a conversion the library offers.
OTHER_TARGETS = {"fastq": [".fa", ".fasta"], "fasta2": [".fq"]}


def gen_program(ctx, fd, n_chunks_rows, max_ops, allow_replace=True, allow_write=True, formats_no_replace=(),
                allow_item=True, allow_other_target=False, allow_setctx=False):
    """ops over the variables; n_chunks_rows = rows per initial chunk (model side knows the chunking)"""
    tape = ctx.tape
    fmt = T.FORMATS[fd["format"]]
    lens = list(n_chunks_rows)          # model length of every variable
    ops = []
    last_set = {}                       # variable -> field of its latest attribute assignment
    repl_fields = [(f, k) for f, k in fmt.fields if k in REPLACEABLE]
    if fmt.layout == "fastq":
        # a replaced sequence of another length would make the record itself inconsistent with its quality line
        repl_fields = [(f, k) for f, k in repl_fields if f != "sequence"]
    while len(ops) < max_ops and tape.more("op.more", 4, 5):
        can_repl = allow_replace and repl_fields and fmt.name not in formats_no_replace
        w = [(4, "sel"), (2, "get"), (2 if allow_write else 0, "write"), (2, "concat"),
             (2 if can_repl else 0, "replace"), (1 if can_repl else 0, "setattr"),
             (1, "len"), (1, "tolist"), (1 if allow_item else 0, "item")]
        op = tape.weighted(w, "op")
        src = tape.draw(len(lens), "op.src")
        n = lens[src]
        if op == "sel":
            idx = gen_index(tape, n, "idx")
            ops.append({"op": "sel", "src": src, "idx": idx})
            lens.append(len(norm_index(idx, n)))
        elif op == "concat":
            src2 = tape.draw(len(lens), "op.src2")
            ops.append({"op": "concat", "srcs": [src, src2]})
            lens.append(n + lens[src2])
        elif op == "replace":
            fname, kind = repl_fields[tape.draw(len(repl_fields), "op.field")]
            texts = [gen_replacement_text(tape, kind, "rv") for _ in range(n)]
            ops.append({"op": "replace", "src": src, "field": fname, "texts": texts})
            lens.append(n)
        elif op == "setattr":
            # explicit attribute assignment `v.field = array`: changes v (that is its purpose) and nothing else
            # (assignment does no type conversion in either mode: only fields whose declared type is what
            # replacement_array builds — numbers, and text for str-typed columns — are assigned)
            cands = [(f, k) for f, k in repl_fields if f in assignable_fields(fmt)]
            if not cands:
                ops.append({"op": "len", "src": src})
                continue
            fname, kind = cands[tape.draw(len(cands), "op.field")]
            if src in last_set and tape.boolean("op.same_field_again", 1, 2):
                # the same field of the same variable assigned a second time (after whatever was done in between;
                # half of the time the whole table is materialised in between)
                fname, kind = last_set[src]
                if tape.boolean("op.materialise_between", 1, 2):
                    ops.append({"op": "tolist", "src": src})
            last_set[src] = (fname, kind)
            texts = [gen_replacement_text(tape, kind, "rv") for _ in range(n)]
            ops.append({"op": "setattr", "src": src, "field": fname, "texts": texts})
        elif op == "get":
            fname = fmt.fields[tape.draw(len(fmt.fields), "op.field")][0]
            ops.append({"op": "get", "src": src, "field": fname})
        elif op == "item":
            if n == 0:
                ops.append({"op": "len", "src": src})
            else:
                ops.append({"op": "item", "src": src, "i": tape.draw(n, "op.i")})
        elif op == "len" and allow_setctx and fmt.header and tape.boolean("op.setctx", 1, 2):
            # explicit assignment of a header to ONE table (set_context): like attribute assignment it may change its
            # target and nothing else (derived tables and their parents each own their header context)
            ops.append({"op": "setctx", "src": src})
        elif op == "write" and allow_other_target and fmt.name in OTHER_TARGETS and tape.boolean("op.other_target", 1, 3):
            tg = OTHER_TARGETS[fmt.name]
            ops.append({"op": "write", "src": src, "target": tg[tape.draw(len(tg), "op.target")]})
        else:
            ops.append({"op": op, "src": src})
    return ops


def model_vars(fd_records_per_chunk, ops, upto=None):
    """-> list of MVar for every variable that exists after ops[:upto] (all ops when upto is None)"""
    if upto is not None:
        ops = ops[:upto]
    mv = []
    pos = 0
    for ci, n in enumerate(fd_records_per_chunk):
        mv.append(MVar([(pos + i, {}) for i in range(n)], True, ci))
        pos += n
    for op in ops:
        if op["op"] == "sel":
            s = mv[op["src"]]
            mv.append(MVar([s.rows[i] for i in norm_index(op["idx"], len(s))], s.selection_only, s.chunk,
                           s.replaced_cols))
        elif op["op"] == "concat":
            a, b = mv[op["srcs"][0]], mv[op["srcs"][1]]
            mv.append(MVar(list(a.rows) + list(b.rows), False, None, a.replaced_cols | b.replaced_cols))
        elif op["op"] == "replace":
            s = mv[op["src"]]
            rows = []
            for (rec, over), t in zip(s.rows, op["texts"]):
                o = dict(over)
                o[op["field"]] = t
                rows.append((rec, o))
            mv.append(MVar(rows, False, None, s.replaced_cols | {op["field"]}))
        elif op["op"] == "setattr":
            s = mv[op["src"]]
            rows = []
            for (rec, over), t in zip(s.rows, op["texts"]):
                o = dict(over)
                o[op["field"]] = t
                rows.append((rec, o))
            mv[op["src"]] = MVar(rows, False, None, s.replaced_cols | {op["field"]})   # in place: only this variable
    return mv


# ---------------------------------------------------------------------------------------------
# real side

def replacement_array(fmt, fname, texts):
    b = core.bnp()
    kind = dict(fmt.fields)[fname]
    if kind in ("int", "sint"):
        return np.array([int(t) for t in texts], dtype=int)
    if kind == "pos1":
        return np.array([int(t) - 1 for t in texts], dtype=int)
    if kind == "float":
        return np.array([float(t) for t in texts], dtype=float)
    if not texts:
        return b.as_encoded_array([])
    return b.as_encoded_array(list(texts))


class World:
    """one fresh execution of a program prefix on real tables"""

    def __init__(self, f, lazy, chunk_k, out_tag="o"):
        self.f = f                  # props.C01.File
        self.lazy = lazy
        self.chunk_k = chunk_k      # None => whole read
        self.fs = simfs.SimFS(event_budget=100000)
        self.fs.put(f.spec.path, f.stored)
        self.vars = []
        self.results = []           # per op: plain result | Raised | None
        self.out_tag = out_tag
        self.n_writes = 0
        self.chunk_rows = []

    def _read(self):
        spec = iosim.ReaderSpec(self.f.fmt, self.f.spec.path, self.f.gzip, self.lazy, "path")
        reader = iosim.open_reader(spec)
        if self.chunk_k is None:
            t = reader.read()
            reader.close()
            return [t]
        out = []
        while True:
            c = reader.read_chunk(self.chunk_k)
            if len(c) == 0:
                break
            out.append(c)
            if len(out) > 50:
                raise RuntimeError("bnpsim: too many chunks")
        reader.close()
        return out

    def start(self):
        """-> None | Raised"""
        r = call(self._read)
        if raised(r):
            return r
        self.vars = list(r)
        self.chunk_rows = [len(v) for v in self.vars]
        return None

    def write_bytes(self, v, target=None):
        """bytes produced by writer.write(v) on a fresh target (target: suffix of another format, written with the
        writer the library chooses for it)"""
        b = core.bnp()
        fmt = self.f.fmt
        self.n_writes += 1
        path = f"/sim/{self.out_tag}{self.n_writes}{target or fmt.suffix}"
        bt = iosim.resolve(fmt.buffer) if (fmt.buffer and not target) else None

        def f():
            with b.open(path, "w", buffer_type=bt) as w:
                w.write(v)
            return self.fs.files[path]
        return call(f)

    def observe(self, v, with_write=True):
        """full observable state of a variable (touches every field)"""
        fmt = self.f.fmt
        n = call(len, v)
        rows = iosim.table_to_rows(v, fmt)
        out = {"len": n if not raised(n) else repr(n),
               "rows": rows if not raised(rows) else "Raised:" + rows.type}
        # the whole table as rows (tolist() materialises it through another route than the access to single fields)
        tl = call(lambda: plain([tuple_to_list(e) for e in v.tolist()]))
        out["tolist"] = tl if not raised(tl) else "Raised:" + tl.type
        if with_write:
            w = self.write_bytes(v)
            out["write"] = core.esc(w) if not raised(w) else "Raised:" + w.type
        return out

    def step(self, op):
        """execute one op; returns the observable result (plain) | Raised | None for var-creating ops that succeeded"""
        b = core.bnp()
        fmt = self.f.fmt
        k = op["op"]
        if k == "sel":
            src = self.vars[op["src"]]
            idx = op["idx"]
            if idx["kind"] == "slice":
                key = slice(idx["a"], idx["b"], idx["c"])
            elif idx["kind"] == "mask":
                key = np.array(idx["bits"][:len(src)] if not raised(call(len, src)) else idx["bits"], dtype=bool)
                if idx.get("as_list") and len(key):
                    key = [bool(x) for x in key]
            else:
                key = list(idx["vals"])
            r = call(lambda: src[key])
            self.vars.append(r)
            return r if raised(r) else None
        if k == "concat":
            a, c = self.vars[op["srcs"][0]], self.vars[op["srcs"][1]]
            r = call(lambda: np.concatenate([a, c]))
            self.vars.append(r)
            return r if raised(r) else None
        if k == "replace":
            src = self.vars[op["src"]]
            r = call(lambda: b.replace(src, **{op["field"]: replacement_array(fmt, op["field"], op["texts"])}))
            self.vars.append(r)
            return r if raised(r) else None
        src = self.vars[op["src"]]
        if raised(src):
            return src
        if k == "setattr":
            def f():
                setattr(src, op["field"], replacement_array(fmt, op["field"], op["texts"]))
            return call(f)
        if k == "setctx":
            def f():
                old = src.get_context("header") if (hasattr(src, "has_context") and src.has_context("header")) else ""
                old = old if isinstance(old, str) else ""
                lines = [ln for ln in old.split("\n") if ln]
                marker = "@CO\tset by bnpsim" if fmt.header == "sam" else "##source=set_by_bnpsim"
                new = "\n".join(lines[:-1] + [marker] + lines[-1:]) + "\n" if lines else marker + "\n"
                src.set_context("header", new)
            return call(f)
        if k == "get":
            return call(lambda: plain(getattr(src, op["field"])))
        if k == "len":
            return call(len, src)
        if k == "tolist":
            return call(lambda: plain([tuple_to_list(e) for e in src.tolist()]))
        if k == "item":
            return call(lambda: entry_to_plain(src[op["i"]], fmt))
        if k == "write":
            w = self.write_bytes(src, op.get("target"))
            return w if raised(w) else core.esc(w)
        raise KeyError(k)

    def run(self, ops):
        with simfs.Mount(self.fs), core.quiet():
            e = self.start()
            if e is not None:
                return e
            for op in ops:
                # an op on a variable that failed to be created propagates the failure
                srcs = [op["src"]] if "src" in op else op.get("srcs", [])
                bad = next((self.vars[s] for s in srcs if raised(self.vars[s])), None)
                if bad is not None:
                    if op["op"] in ("sel", "concat", "replace"):
                        self.vars.append(bad)
                    self.results.append(bad)
                    continue
                self.results.append(self.step(op))
        return None

    def run_and_observe(self, ops, targets, with_write=True):
        """fresh replay of ops, then observe the target variables -> {var index: state} | Raised"""
        with simfs.Mount(self.fs), core.quiet():
            e = self.start()
            if e is not None:
                return e
            for op in ops:
                srcs = [op["src"]] if "src" in op else op.get("srcs", [])
                bad = next((self.vars[s] for s in srcs if raised(self.vars[s])), None)
                if bad is not None:
                    if op["op"] in ("sel", "concat", "replace"):
                        self.vars.append(bad)
                    self.results.append(bad)
                    continue
                self.results.append(self.step(op))
            out = {}
            for t in targets:
                v = self.vars[t]
                out[t] = "Raised:" + v.type if raised(v) else self.observe(v, with_write)
            return out


def tuple_to_list(e):
    try:
        return list(e)
    except TypeError:
        return e


def entry_to_plain(e, fmt):
    return {name: plain(getattr(e, name)) for name in fmt.field_names()}


# ---------------------------------------------------------------------------------------------
# expected bytes / rows from the model

def source_span(f, rec):
    """source bytes of record `rec` including its line terminator (a missing final terminator counts as LF)"""
    s, e = f.spans[rec][0], f.spans[rec][1]
    raw = f.data[s:e]
    if not raw.endswith(b"\n"):
        raw += b"\n"
    return raw


def expected_rows(f, mvar):
    """model values of a variable's rows (list of dict field -> expected value)"""
    fmt = f.fmt
    out = []
    for rec, over in mvar.rows:
        texts = dict(f.records[rec]["texts"])
        texts.update(over)
        out.append({"texts": texts, "extra_cols": f.records[rec]["extra_cols"]})
    return out
