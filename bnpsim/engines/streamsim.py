"""streamsim: stream sources whose chunking is chosen by the scheduler, table builders and total renderers.

The "schedule" of a streamsim run is the CUT SET: the positions at which a table of n entries is cut into
consecutive chunks (a subset of 1..n-1, stored as a bit mask: bit i set <=> a cut between entry i and i+1).
For file-backed streams the schedule is the chunk size k (bytes) handed to read_chunks / the default knob.

Real code: bionumpy (working tree), numpy, npstructures.  Stub: the file system (SimFS) for the file-backed source.
"""
import math

from .. import core
from ..core import call, raised, plain


# ---------------------------------------------------------------------------------------------
# cut sets

def n_masks(n):
    return 1 << max(n - 1, 0)


def cuts_of_mask(mask, n):
    return [i + 1 for i in range(max(n - 1, 0)) if (mask >> i) & 1]


def mask_of_cuts(cuts):
    m = 0
    for c in cuts:
        m |= 1 << (c - 1)
    return m


def full_mask(n):
    """all single-entry chunks"""
    return n_masks(n) - 1


def bounds_of(cuts, n):
    return [0] + list(cuts) + [n]


def sizes_of(cuts, n):
    b = bounds_of(cuts, n)
    return [y - x for x, y in zip(b[:-1], b[1:])]


def cuts_of_sizes(sizes):
    out, acc = [], 0
    for s in sizes[:-1]:
        acc += s
        out.append(acc)
    return out


def all_masks(n):
    """deterministic enumeration of every cut set of n entries; the two extremes first"""
    total = n_masks(n)
    yield 0
    if total > 1:
        yield total - 1
    for m in range(1, total - 1):
        yield m


def group_starts(keys):
    """positions 1..n-1 at which a new group (run of equal keys) starts"""
    return [i for i in range(1, len(keys)) if keys[i] != keys[i - 1]]


def relation(cuts, n, starts):
    """how a cut set relates to the groups of the key column"""
    st = set(starts)
    sizes = sizes_of(cuts, n)
    return {
        "inside": any(c not in st for c in cuts),
        "after": any(c in st for c in cuts),
        "single": any(s == 1 for s in sizes) and n > 1,
        "nchunks": len(sizes),
    }


def relation_key(rel):
    return ("i" if rel["inside"] else "") + ("a" if rel["after"] else "") + ("s" if rel["single"] else "") or "-"


def bucket(n):
    return n if n <= 3 else (4 if n <= 6 else (7 if n <= 12 else 13))


def draw_mask(tape, n, label="cut.mask"):
    """one cut set; value 0 == one chunk.  A uniform mask has on average one cut every second position; the density
    draw thins it out so that long chunks occur too."""
    total = n_masks(n)
    m = tape.draw(total, label)
    dens = tape.weighted([(3, 0), (2, 1), (1, 2)], label + ".thin")
    for _ in range(dens):
        m &= tape.draw(total, label + ".and")
    return m


# ---------------------------------------------------------------------------------------------
# stream sources

class Pulls:
    """counts chunks pulled out of the harness-made sources (logical steps)"""

    def __init__(self):
        self.n = 0


def _counted(pieces, pulls):
    for p in pieces:
        if pulls is not None:
            pulls.n += 1
        yield p


def mem_stream(table, cuts, pulls=None):
    """NpDataclassStream over consecutive slices of an in-memory table (library calls: slicing, the stream class)"""
    core.bnp()
    from bionumpy.streams import NpDataclassStream
    b = bounds_of(cuts, len(table))
    pieces = [table[x:y] for x, y in zip(b[:-1], b[1:])]
    return NpDataclassStream(_counted(pieces, pulls), dataclass=type(table))


def resolve_buffer(name):
    if name is None:
        return None
    b = core.bnp()
    return getattr(b, name)


class MemSource:
    """a table held in memory and the cut set it is streamed with"""
    kind = "mem"

    def __init__(self, table, cuts, pulls=None):
        self.table = table
        self.cuts = list(cuts)
        self.pulls = pulls

    def with_cuts(self, cuts):
        return MemSource(self.table, cuts, self.pulls)

    def whole(self):
        return self.table

    def stream(self):
        return mem_stream(self.table, self.cuts, self.pulls)

    # genomic entry points
    def intervals(self, genome, stranded, stream):
        return genome.get_intervals(self.stream() if stream else self.table, stranded=stranded)

    def track(self, genome, stream):
        return genome.get_track(self.stream() if stream else self.table)


class FileSource:
    """a file on the mounted SimFS streamed with read_chunks(k) (explicit) or with the default chunk size (the
    caller holds core.chunk_knob(k) open around every evaluation)"""
    kind = "file"

    def __init__(self, path, k, explicit=True, buffer_name=None):
        self.path = path
        self.k = k
        self.explicit = explicit
        self.buffer_name = buffer_name

    def with_k(self, k):
        return FileSource(self.path, k, self.explicit, self.buffer_name)

    def _open(self):
        b = core.bnp()
        bt = resolve_buffer(self.buffer_name)
        if bt is None:
            return b.open(self.path)
        return b.open(self.path, buffer_type=bt)

    def whole(self):
        return self._open().read()

    def stream(self):
        r = self._open()
        if self.explicit:
            return r.read_chunks(self.k)
        return r.read_chunks()

    def chunk_sizes(self):
        """the chunking the file-level reader produces for this k: list of entry counts, or Raised"""
        def f():
            out = []
            for c in self.stream():
                out.append(len(c))
                if len(out) > 2000:
                    raise RuntimeError("bnpsim: no end of stream")
            return out
        with core.chunk_knob(self.k):
            return call(f)

    def intervals(self, genome, stranded, stream):
        return genome.read_intervals(self.path, stranded=stranded, stream=stream)

    def track(self, genome, stream):
        return genome.read_track(self.path, stream=stream)


# ---------------------------------------------------------------------------------------------
# tables (in memory) and their serialisation (file-backed source)
#   interval rows : (chrom, start, stop)            -> Interval          / .bed
#   stranded rows : (chrom, start, stop, strand)    -> StrandedInterval  / .bed with 6 columns (Bed6)
#   bedgraph rows : (chrom, start, stop, value)     -> BedGraph          / .bdg
#   read rows     : (name, sequence, quality text)  -> SequenceEntryWithQuality / .fq

def make_table(kind, rows):
    core.bnp()
    from bionumpy import datatypes as dt
    cols = [list(c) for c in zip(*rows)] if rows else None
    if kind == "interval":
        return dt.Interval(cols[0], cols[1], cols[2])
    if kind == "strkey":
        # a user-defined entry type whose grouping column is declared `str` (ragged text, not an identifier array):
        # group-by takes its ragged-key path for it
        return strkey_class()(cols[0], cols[1], cols[2])
    if kind == "stranded":
        return dt.StrandedInterval(cols[0], cols[1], cols[2], cols[3])
    if kind == "bedgraph":
        return dt.BedGraph(cols[0], cols[1], cols[2], [float(v) for v in cols[3]])
    if kind == "reads":
        return dt.SequenceEntryWithQuality(cols[0], cols[1], [[ord(ch) - 33 for ch in q] for q in cols[2]])
    raise KeyError(kind)


_STRKEY = []


def strkey_class():
    if not _STRKEY:
        core.bnp()
        from bionumpy.bnpdataclass import bnpdataclass

        @bnpdataclass
        class StrKeyInterval:
            chromosome: str
            start: int
            stop: int
        _STRKEY.append(StrKeyInterval)
    return _STRKEY[0]


def fmt_value(v):
    if isinstance(v, float) and v == int(v):
        return str(int(v))
    return repr(v)


def serialize(kind, rows, final_newline=True):
    lines = []
    if kind == "interval":
        lines = [f"{c}\t{s}\t{e}" for c, s, e in rows]
    elif kind == "stranded":
        lines = [f"{c}\t{s}\t{e}\tn{i}\t0\t{st}" for i, (c, s, e, st) in enumerate(rows)]
    elif kind == "bedgraph":
        lines = [f"{c}\t{s}\t{e}\t{fmt_value(v)}" for c, s, e, v in rows]
    elif kind == "reads":
        for name, seq, q in rows:
            lines += ["@" + name, seq, "+", q]
    else:
        raise KeyError(kind)
    data = "\n".join(lines)
    if final_newline and lines:
        data += "\n"
    return data.encode("latin1")


SUFFIX = {"interval": ".bed", "stranded": ".bed", "bedgraph": ".bdg", "reads": ".fq"}
FIELDS = {"interval": ["chromosome", "start", "stop"], "strkey": ["chromosome", "start", "stop"], "stranded": ["chromosome", "start", "stop", "strand"],
          "bedgraph": ["chromosome", "start", "stop", "value"], "reads": ["name", "sequence", "quality"]}


def entry_sizes(kind, rows):
    """bytes per entry of serialize()"""
    return [len(serialize(kind, [r])) for r in rows]


# ---------------------------------------------------------------------------------------------
# total renderers (never raise on an odd value: an odd value renders as a marker and so compares unequal)

def text_col(col):
    """a column of names (chromosome, name, strand) as a list of str.  A chromosome column of an in-memory
    GenomicIntervals is encoded with the genome's string encoding: decode through its labels."""
    try:
        enc = getattr(col, "encoding", None)
        if enc is not None and hasattr(enc, "get_labels") and getattr(col, "ndim", 1) == 1 and hasattr(col, "raw"):
            labels = [str(x) for x in enc.get_labels()]
            return [labels[int(i)] for i in col.raw().tolist()]
        if hasattr(col, "tolist"):
            out = col.tolist()
            if isinstance(out, str):
                return list(out)
            return [x if isinstance(x, str) else plain(x) for x in out]
        return plain(col)
    except Exception as e:  # rendering must be total
        return f"<unrenderable {type(col).__name__}: {type(e).__name__}>"


TEXT_FIELDS = ("chromosome", "name", "strand")


def cols(table, fields):
    """{field: list}: touching every field of a (possibly lazy) table"""
    out = {}
    for f in fields:
        try:
            c = getattr(table, f)
        except Exception as e:
            out[f] = f"<no field {f}: {type(e).__name__}>"
            continue
        out[f] = text_col(c) if f in TEXT_FIELDS else plain(c)
    try:
        out["<len>"] = len(table)
    except Exception as e:
        out["<len>"] = f"<no len: {type(e).__name__}>"
    return out


def dense(x):
    """arrays, ragged arrays, run-length arrays -> nested plain lists"""
    try:
        if isinstance(x, (tuple, list)):
            return [dense(y) for y in x]
        if hasattr(x, "to_array"):
            x = x.to_array()
        return plain(x)
    except Exception as e:
        return f"<unrenderable {type(x).__name__}: {type(e).__name__}>"


def dense_track(data, chrom_sizes, boolean):
    """per-chromosome dense values of the table returned by GenomicArray.get_data(): a BedGraph (runs with values)
    or, for a boolean mask, the Intervals that are True.  Compared dense so that two run segmentations of the same
    array are the same value."""
    try:
        chroms = text_col(data.chromosome)
        starts = plain(data.start)
        stops = plain(data.stop)
        values = [True] * len(starts) if boolean else plain(data.value)
        if not (isinstance(chroms, list) and isinstance(starts, list) and isinstance(stops, list) and isinstance(values, list)
                and len(chroms) == len(starts) == len(stops) == len(values)):
            return f"<malformed columns {core.short([chroms, starts, stops, values], 200)}>"
        out = {name: [None] * size for name, size in chrom_sizes.items()}
        for c, s, e, v in zip(chroms, starts, stops, values):
            if c not in out or not (isinstance(s, int) and isinstance(e, int)) or s < 0 or e > len(out[c]) or s > e:
                return f"<run out of range {c}:{s}-{e}>"
            for i in range(s, e):
                if out[c][i] is not None:
                    return f"<overlapping runs at {c}:{i}>"
                out[c][i] = v
        fill = False if boolean else 0
        return {c: [fill if v is None else v for v in arr] for c, arr in out.items()}
    except Exception as e:
        return f"<unrenderable {type(data).__name__}: {type(e).__name__}: {e}>"


def groups(it, fields, limit=200):
    """list of [key, columns] of a (streamed or in-memory) groupby"""
    out = []
    for key, g in it:
        out.append([key if isinstance(key, str) else plain(key), cols(g, fields)])
        if len(out) > limit:
            raise RuntimeError("bnpsim: more groups than entries")
    return out


def counts(ec):
    """EncodedCounts -> plain"""
    try:
        return {"alphabet": [str(a) for a in ec.alphabet], "counts": plain(ec.counts)}
    except Exception as e:
        return f"<unrenderable {type(ec).__name__}: {type(e).__name__}>"


def concat(stream_of_results):
    """the value of a non-reducing streamable call is the stream of per-chunk results: join it in order"""
    import numpy as np
    parts = list(stream_of_results)
    if not parts:
        return []
    if all(isinstance(p, (int, float)) for p in parts):
        return parts
    return np.concatenate(parts)


def rechunk_backlog(sizes, m):
    """True iff re-chunking pieces of these sizes to m entries ever has >= 2m entries buffered after a pull, i.e.
    more than one full output chunk becomes available at once"""
    buf = 0
    for s in sizes:
        buf += s
        if buf >= 2 * m:
            return True
        if buf >= m:
            buf -= m
    return False


def first_diff(a, b, path=""):
    """where two plain values differ (for the violation detail)"""
    if isinstance(a, dict) and isinstance(b, dict):
        for k in a:
            if k not in b:
                return path + "/" + str(k) + " missing"
            if not core.same(a[k], b[k]):
                return first_diff(a[k], b[k], path + "/" + str(k))
        for k in b:
            if k not in a:
                return path + "/" + str(k) + " extra"
    if isinstance(a, list) and isinstance(b, list):
        if len(a) != len(b):
            return f"{path} len {len(a)} != {len(b)}"
        for i, (x, y) in enumerate(zip(a, b)):
            if not core.same(x, y):
                return first_diff(x, y, f"{path}[{i}]")
    return f"{path}: {core.short(a, 80)} != {core.short(b, 80)}"
