"""iosim: reader/writer actors over simulated storage.

Real code: bionumpy (working tree), numpy, npstructures, stdlib gzip/zlib.  Stub: the file system (SimFS).
"""
import gzip as _gzip
import importlib
import io

from .. import core, simfs
from ..core import Violation, Inconclusive, Raised, call, raised, plain
from ..models import text as T


def resolve(path):
    mod, _, attr = path.rpartition(".")
    return getattr(importlib.import_module(mod), attr)


# ---------------------------------------------------------------------------------------------
# storage variants

def gzip_members(data, cuts):
    """concatenation of gzip members cut at the given offsets: any such concatenation is a valid gzip stream"""
    cuts = sorted(set(c for c in cuts if 0 < c < len(data)))
    parts = []
    prev = 0
    for c in cuts + [len(data)]:
        parts.append(data[prev:c])
        prev = c
    return b"".join(_gzip.compress(p, compresslevel=1, mtime=0) for p in parts), len(parts)


def draw_storage(tape, data, allow_gzip=True):
    """-> (stored bytes, suffix extension, descriptor)"""
    if allow_gzip and tape.boolean("gzip", 1, 3):
        ncuts = tape.weighted([(3, 0), (2, 1), (1, 2)], "gz.ncuts")
        cuts = [tape.draw(max(len(data), 1), "gz.cut") for _ in range(ncuts)]
        stored, n = gzip_members(data, cuts)
        return stored, ".gz", {"gzip": True, "members": n}
    return data, "", {"gzip": False, "members": 0}


# ---------------------------------------------------------------------------------------------
# reader actor

class ReaderSpec:
    def __init__(self, fmt, path, gz, lazy, route):
        self.fmt = fmt
        self.path = path
        self.gz = gz
        self.lazy = lazy      # None | True | False
        self.route = route    # 'path' | 'handle'


def open_reader(spec):
    """returns a NpDataclassReader built through the public API (path route) or the documented
    handle-passing route"""
    b = core.bnp()
    fmt = spec.fmt
    bt = resolve(fmt.buffer) if fmt.buffer else None
    kwargs = {}
    if spec.lazy is not None:
        kwargs["lazy"] = spec.lazy
    if spec.route == "path":
        return b.open(spec.path, buffer_type=bt, **kwargs)
    from bionumpy.io.parser import NumpyFileReader
    from bionumpy.io.npdataclassreader import NpDataclassReader
    h = open(spec.path, "rb")  # SimFS through the mounted seam
    if spec.gz:
        h = _gzip.GzipFile(fileobj=h, mode="rb")
    fr = NumpyFileReader(h, resolve(fmt.bufpath))
    if spec.gz:
        fr.set_prepend_mode()
    return NpDataclassReader(fr, **kwargs)


def table_to_rows(table, fmt):
    """touch every field of a (possibly lazy) table and render it as model rows; a raise is a value"""
    def f():
        pt = {}
        for name in fmt.field_names():
            v = getattr(table, name)
            if hasattr(v, "__dataclass_fields__") and not isinstance(v, type):
                # a table-valued column (typed VCF INFO): its keys are parsed on access; an exception of the library must
                # surface here (plain() is total and would render it as text)
                import dataclasses
                for sub in dataclasses.fields(v):
                    getattr(v, sub.name)
            pt[name] = plain(v)
        n = len(table)
        return pt, n
    r = call(f)
    if raised(r):
        return r
    pt, n = r
    rows = T.table_rows(pt, fmt)
    if len(rows) != n:
        # len() disagrees with the columns: keep both, the comparison will flag it
        rows = rows + [{"<len>": n}]
    return rows


def read_whole(spec):
    def f():
        r = open_reader(spec)
        try:
            return r.read()
        finally:
            r.close()
    t = call(f)
    if raised(t):
        return t
    return table_to_rows(t, spec.fmt)


class ChunkedRead:
    """one reader stepped chunk by chunk; generator protocol so that a scheduler can interleave readers"""

    def __init__(self, spec, ks, use_default=False, stream_api=False, max_chunks=400, cap=None, deferred=False):
        self.spec = spec
        self.deferred = deferred      # keep the chunk objects and look at their entries only after the last chunk was read
        self.cap = cap                # max_chunk_size handed to read_chunk / read_chunks (None: not passed)
        self.ks = ks                  # list of k (cycled) or a single int
        self.use_default = use_default
        self.stream_api = stream_api  # read_chunks() generator vs successive read_chunk(k)
        self.rows = []
        self.chunk_sizes = []
        self.error = None
        self.done = False
        self.max_chunks = max_chunks
        self._it = self._steps()

    def _k(self, i):
        if isinstance(self.ks, int):
            return self.ks
        return self.ks[i % len(self.ks)]

    def _steps(self):
        r = call(open_reader, self.spec)
        if raised(r):
            self.error = r
            self.done = True
            return
        reader = r
        yield
        stream = None
        if self.stream_api:
            if self.use_default:
                stream = call(lambda: iter(reader.read_chunks()))
            else:
                if self.cap is not None:
                    stream = call(lambda: iter(reader.read_chunks(min_chunk_size=self._k(0), max_chunk_size=self.cap)))
                else:
                    stream = call(lambda: iter(reader.read_chunks(min_chunk_size=self._k(0))))
            if raised(stream):
                self.error = stream
                self.done = True
                return
        i = 0
        kept = []
        while True:
            if i >= self.max_chunks:
                self.error = Raised(RuntimeError("bnpsim: no end of stream after max_chunks chunks"))
                self.error.type = "NoProgress"
                break
            if stream is not None:
                c = call(next, stream, None)
                if c is None:
                    break
            elif self.use_default:
                c = call(reader.read_chunk)
            elif self.cap is not None:
                c = call(reader.read_chunk, self._k(i), self.cap)
            else:
                c = call(reader.read_chunk, self._k(i))
            if raised(c):
                self.error = c
                break
            n = call(len, c)
            if raised(n):
                self.error = n
                break
            if n == 0:
                break
            if self.deferred:
                kept.append(c)
            else:
                rows = table_to_rows(c, self.spec.fmt)
                if raised(rows):
                    self.error = rows
                    break
                self.rows.extend(rows)
            self.chunk_sizes.append(n)
            i += 1
            yield
        call(reader.close)
        if self.error is None:
            for c in kept:      # "when the chunks are concatenated in order": after the reader moved on and was closed
                rows = table_to_rows(c, self.spec.fmt)
                if raised(rows):
                    self.error = rows
                    break
                self.rows.extend(rows)
        self.done = True

    def step(self):
        try:
            next(self._it)
            return True
        except StopIteration:
            self.done = True
            return False

    def run_to_end(self):
        while self.step():
            pass
        return self


def raw_conservation(spec, k, body):
    """NumpyFileReader level: every body byte is delivered in exactly one chunk, in order; the only byte
    ever added is one newline after the last byte.  Returns None | message | Raised"""
    from bionumpy.io.parser import NumpyFileReader

    def f():
        h = open(spec.path, "rb")
        if spec.gz:
            h = _gzip.GzipFile(fileobj=h, mode="rb")
        fr = NumpyFileReader(h, resolve(spec.fmt.bufpath))
        if spec.gz:
            fr.set_prepend_mode()
        out = []
        n = 0
        for buf in fr.read_chunks(k):
            d = buf.data
            out.append(bytes(d.raw()) if hasattr(d, "raw") else bytes(d))
            n += 1
            if n > 400:
                raise RuntimeError("bnpsim: no end of stream")
        fr.close()
        return out
    out = call(f)
    if raised(out):
        return out
    got = b"".join(out)
    if got == body or got == body + b"\n":
        return None
    return {"chunks": [core.esc(x) for x in out][:12], "body": core.esc(body)}


def compare_rows(ref_rows, got_rows):
    """-> None | (kind, detail)"""
    if core.same(ref_rows, got_rows):
        return None
    if len(got_rows) < len(ref_rows):
        kind = "fewer"
    elif len(got_rows) > len(ref_rows):
        kind = "more"
    else:
        kind = "different"
    first = next((i for i, (a, b) in enumerate(zip(ref_rows, got_rows)) if not core.same(a, b)),
                 min(len(ref_rows), len(got_rows)))
    return kind, {"n_ref": len(ref_rows), "n_got": len(got_rows), "first_diff_row": first,
                  "ref_row": ref_rows[first] if first < len(ref_rows) else None,
                  "got_row": got_rows[first] if first < len(got_rows) else None}


def compare_with_model(fmt, records, rows, where):
    """C02 value oracle: rows parsed by the library vs the values the format assigns to the text"""
    if len(rows) != len(records):
        raise Violation("value", "count", {"where": where, "n_records": len(records), "n_entries": len(rows)})
    for i, (rec, row) in enumerate(zip(records, rows)):
        ev = T.expected_values(fmt, rec)
        for fname, kind in fmt.fields:
            m = T.compare_field(kind, ev[fname], row.get(fname, "<absent>"))
            if m:
                raise Violation("value", f"{fmt.name}.{fname}",
                                {"where": where, "record": i, "field": fname, "text": rec["texts"][fname], "msg": m})
