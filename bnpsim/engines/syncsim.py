"""syncsim: grouped, streamed data synchronised with a genome / contig list (machinery of C12).

Real code: bionumpy (working tree), numpy, npstructures.  Stub: the file system (SimFS), used for the
`genome.read_*(path, stream=True)` / `bnp.open(path).read_chunks(k)` / `writer.write(stream)` routes.

Pieces
  GenomeSpec / gen_genome   a contig list of <= 4 contigs (prefix-related names, names with '_'), its construction mode
                            and the *reading of the property* of that construction: which contigs take part, in which
                            order, which names are ignored
  DataSpec / gen_data       a sequence of contig groups (any subset of the contigs in any order, optionally unknown and
                            extra-ignored names), entries, and a cut set of the flat entry list; every name forms exactly
                            one contiguous group (the precondition of the property, asserted)
  classify                  compatible / order_disagrees / unknown_contig (+ position), late_bad (the first offending group
                            directly follows the group of the LAST contig: it can only be noticed by one more pull)
  CONSUMERS                 public call shapes; each is (family, data kind, number of streams, run, render, expect)
  compare_*                 total comparisons of an observation with the expected per-contig delivery

Nothing here draws from anything but the tape; nothing iterates over a set.
"""
import os

from .. import core, simfs
from ..core import raised

NAME_POOL = ["chr1", "chr2", "chr10", "chr1_alt", "chr11", "chr2_r", "scaffold10", "scaffold11"]     # prefixes of each other, names with '_', names sharing their first 8 bytes
UNKNOWN_POOL = ["chrX", "chr", "chr1x", "chrU_k"]    # never in a genome; 'chr' prefixes everything; '_' but not in the genome
EXTRA_IGNORED_POOL = ["chrM", "chrEBV"]              # given to Genome.with_ignored_added
MAX_CONTIGS = 4


# ---------------------------------------------------------------------------------------------
# genome

class GenomeSpec:
    """generator decisions about the contig list + the property's reading of them"""

    def __init__(self, names, sizes, family, mode, sort_names, extra_ignored, sizes_as):
        self.names = list(names)            # dict order
        self.sizes = dict(sizes)
        self.family = family                # "genome" (Genome/GenomeContext: has ignored names) | "contiglist" (MultiStream, left_join)
        self.mode = mode                    # genome: "file" | "dict_keepall" | "dict_ignore";  contiglist: "plain"
        self.sort_names = sort_names
        self.extra_ignored = list(extra_ignored)
        self.sizes_as = sizes_as            # contiglist: "dict" | "chromsize"
        keys = sorted(self.names) if sort_names else list(self.names)
        self.keys = keys                    # the genome's order over ALL its names
        if family == "genome" and mode in ("file", "dict_ignore"):
            ign = [n for n in keys if "_" in n]
        else:
            ign = []
        self.ignored = ign + [n for n in self.extra_ignored if n not in ign]   # list, membership tests only
        self.order = [n for n in keys if n not in self.ignored]                # contigs that receive data, in genome order

    def describe(self):
        return {"names": self.names, "sizes": [self.sizes[n] for n in self.names], "family": self.family,
                "mode": self.mode, "sort_names": self.sort_names, "extra_ignored": self.extra_ignored,
                "sizes_as": self.sizes_as, "order": self.order, "ignored": self.ignored}

    @classmethod
    def from_description(cls, d):
        """inverse of describe() (literal replay of a stored scenario)"""
        names = [str(n) for n in d["names"]]
        return cls(names, dict(zip(names, [int(x) for x in d["sizes"]])), d["family"], d["mode"], bool(d["sort_names"]),
                   [str(x) for x in d["extra_ignored"]], d["sizes_as"])

    def size_of(self, name):
        return self.sizes.get(name, 12)

    def chrom_sizes_bytes(self):
        return "".join(f"{n}\t{self.sizes[n]}\n" for n in self.names).encode()

    def ordered_sizes(self):
        return {n: self.sizes[n] for n in self.keys}


def has_prefix_pair(names):
    return any(a != b and b.startswith(a) for a in names for b in names)


def gen_genome(tape, family, allow_underscore_keepall=True, max_size=24):
    names = []
    pool = list(NAME_POOL)
    while True:
        j = tape.draw(len(pool), "g.name")
        names.append(pool.pop(j))
        if len(names) >= MAX_CONTIGS or not tape.more("g.more", 2, 3):
            break
    if all("_" in n for n in names):     # a genome whose every contig is ignored synchronises nothing
        names[0] = "chr1"
    sizes = {n: 1 + tape.draw(max_size, "g.size") for n in names}
    sort_names = tape.boolean("g.sort", 1, 6)
    extra = []
    sizes_as = "dict"
    if family == "genome":
        mode = tape.weighted([(3, "file"), (3, "dict_keepall"), (2, "dict_ignore")], "g.mode")
        if mode == "dict_keepall" and not allow_underscore_keepall:
            # KF-C12-underscore-keepall (excluded region): a genome that keeps '_' names
            names = [n for n in names if "_" not in n] or ["chr1"]
            sizes = {n: sizes.get(n, 7) for n in names}
        if tape.boolean("g.extra_ignored", 1, 4):
            extra = [EXTRA_IGNORED_POOL[0]]
            if tape.boolean("g.extra_ignored2", 1, 3):
                extra.append(EXTRA_IGNORED_POOL[1])
    else:
        mode = "plain"
        sizes_as = tape.weighted([(3, "dict"), (1, "chromsize")], "g.sizes_as")
    return GenomeSpec(names, sizes, family, mode, sort_names, extra, sizes_as)


def build_genome(spec, fs):
    """-> bnp.Genome (family genome) or the sizes object handed to MultiStream (family contiglist); may be core.Raised"""
    bnp = core.bnp()
    if spec.family == "contiglist":
        d = spec.ordered_sizes()
        if spec.sizes_as == "chromsize":
            from bionumpy.datatypes import ChromosomeSize
            return core.call(lambda: ChromosomeSize(list(d.keys()), list(d.values())))
        return d

    def make():
        if spec.mode == "file":
            fs.put("/sim/genome.chrom.sizes", spec.chrom_sizes_bytes())
            g = bnp.Genome.from_file("/sim/genome.chrom.sizes", sort_names=spec.sort_names)
        elif spec.mode == "dict_keepall":
            g = bnp.Genome.from_dict(dict((n, spec.sizes[n]) for n in spec.names), sort_names=spec.sort_names)
        else:
            from bionumpy.genomic_data.genome_context import ignore_underscores
            g = bnp.Genome.from_dict(dict((n, spec.sizes[n]) for n in spec.names), sort_names=spec.sort_names,
                                     filter_function=ignore_underscores)
        if spec.extra_ignored:
            g = g.with_ignored_added(list(spec.extra_ignored))
        return g
    return core.call(make)


# ---------------------------------------------------------------------------------------------
# data

class DataSpec:
    def __init__(self, kind, groups, cuts):
        self.kind = kind          # "interval" | "bedgraph"
        self.groups = groups      # [(name, [entry tuples (name, start, stop[, value])])], every name once, entries >= 1
        self.cuts = cuts          # bit i set: cut between flat entry i and i+1
        self.entries = [e for _, es in groups for e in es]
        names = [n for n, _ in groups]
        assert len(set(names)) == len(names), "precondition broken by the generator: a contig in two groups"
        for n, es in groups:
            assert es and all(e[0] == n for e in es)

    @property
    def names(self):
        return [n for n, _ in self.groups]

    def with_cuts(self, cuts):
        return DataSpec(self.kind, self.groups, cuts)

    def truncated(self, j):
        """the groups before group j, same cuts (used only by generator exclusions)"""
        groups = self.groups[:j]
        n = sum(len(es) for _, es in groups)
        return DataSpec(self.kind, groups, self.cuts & ((1 << max(n - 1, 0)) - 1))

    def chunks(self):
        out, cur = [], []
        for i, e in enumerate(self.entries):
            cur.append(e)
            if i < len(self.entries) - 1 and (self.cuts >> i) & 1:
                out.append(cur)
                cur = []
        if cur:
            out.append(cur)
        return out

    def describe(self):
        return {"kind": self.kind, "groups": [[n, [list(e[1:]) for e in es]] for n, es in self.groups],
                "cuts": self.cuts, "chunks": [len(c) for c in self.chunks()]}

    @classmethod
    def from_description(cls, d):
        groups = [(str(n), [tuple([str(n)] + [int(x) for x in e]) for e in es]) for n, es in d["groups"]]
        return cls(d["kind"], groups, int(d["cuts"]))

    def bed_bytes(self):
        return "".join("\t".join(str(x) for x in e) + "\n" for e in self.entries).encode()

    def chunk_class(self):
        n = len(self.entries)
        if n == 0:
            return "empty"
        if self.cuts == 0 or n == 1:
            return "single"
        bounds = set()
        pos = 0
        for _, es in self.groups:
            pos += len(es)
            bounds.add(pos - 1)
        cutpos = [i for i in range(n - 1) if (self.cuts >> i) & 1]
        inside = [i for i in cutpos if i not in bounds]
        if len(cutpos) == n - 1:
            return "all_singletons"
        if inside and len(inside) < len(cutpos):
            return "inside+boundary"
        return "inside" if inside else "boundary_only"


def gen_entries(tape, kind, name, size, m):
    es = []
    if kind == "interval":
        for _ in range(1 + tape.draw(m, "d.n")):
            start = tape.draw(size, "d.start")
            stop = start + 1 + tape.draw(size - start, "d.len")
            es.append((name, start, stop))
    else:   # bedgraph rows of one contig: sorted, disjoint (what a track file is)
        pos = 0
        for _ in range(1 + tape.draw(m, "d.n")):
            start = pos + tape.draw(3, "d.gap")
            if start >= size:
                break
            stop = min(size, start + 1 + tape.draw(4, "d.len"))
            es.append((name, start, stop, 1 + tape.draw(5, "d.val")))
            pos = stop
        if not es:
            es.append((name, 0, 1, 1))
    return es


def gen_data(tape, g, kind, m, tag=""):
    """a sequence of contig groups over the genome's names (all of them, the ignored ones too)"""
    remaining = list(g.keys)
    seq = []
    for i in range(len(g.keys)):
        j = tape.draw(len(remaining), tag + "d.perm")      # Lehmer code: all zeros = genome order
        n = remaining.pop(j)
        if not tape.boolean(tag + "d.drop", 1, 4):
            seq.append(n)
    if tape.boolean(tag + "d.unknown", 1, 4):
        u = UNKNOWN_POOL[tape.draw(len(UNKNOWN_POOL), tag + "d.unknown.name")]
        where = tape.weighted([(3, "trailing"), (1, "leading"), (2, "any")], tag + "d.unknown.where")
        pos = len(seq) if where == "trailing" else (0 if where == "leading" else tape.draw(len(seq) + 1, tag + "d.unknown.pos"))
        seq.insert(pos, u)
    for x in g.extra_ignored:
        if tape.boolean(tag + "d.ignored_extra", 1, 2):
            seq.insert(len(seq) - tape.draw(len(seq) + 1, tag + "d.ignored_extra.pos"), x)
    groups = [(n, gen_entries(tape, kind, n, g.size_of(n), m)) for n in seq]
    n_entries = sum(len(es) for _, es in groups)
    cuts = tape.draw(1 << max(n_entries - 1, 0), tag + "cuts")
    return DataSpec(kind, groups, cuts)


class Verdict:
    """the property's classification of one data sequence against one genome"""

    def __init__(self, g, d):
        kept = []          # (group index, name) of groups that are neither ignored nor unknown
        self.unknown = []  # names neither in the genome nor ignored
        self.ignored_present = [n for n in d.names if n in g.ignored]
        first_bad = None
        prev_idx = -1
        prev_name = None
        self.late_bad = False
        seq = [n for n in d.names if n not in g.ignored]
        for j, n in enumerate(seq):
            if n not in g.order:
                self.unknown.append(n)
                bad = True
            else:
                idx = g.order.index(n)
                bad = idx <= prev_idx
                if not bad:
                    prev_idx, prev_name = idx, n
            if bad and first_bad is None:
                first_bad = j
                self.late_bad = j > 0 and bool(g.order) and prev_name == g.order[-1]
        idxs = [g.order.index(n) for n in seq if n in g.order]
        self.order_ok = all(a < b for a, b in zip(idxs, idxs[1:]))
        self.compatible = self.order_ok and not self.unknown
        self.first_bad = first_bad           # index into the non-ignored group sequence
        self.first_bad_group = None
        if first_bad is not None:
            self.first_bad_group = d.names.index(seq[first_bad])
        self.why = None if self.compatible else ("unknown_contig" if self.unknown else "order_disagrees")
        nonign = seq
        self.unknown_trailing = bool(self.unknown) and bool(nonign) and nonign[-1] in self.unknown
        self.unknown_leading = bool(self.unknown) and bool(nonign) and nonign[0] in self.unknown
        self.empty_contigs = [n for n in g.order if n not in d.names]
        self.subset = "full" if not self.empty_contigs else ("none" if len(self.empty_contigs) == len(g.order) else "subset")

    def order_class(self):
        if self.compatible:
            return "compatible_" + self.subset
        if self.unknown:
            pos = "trailing" if self.unknown_trailing else ("leading" if self.unknown_leading else "middle")
            return "unknown_" + pos + ("" if self.order_ok else "+disagree") + ("_late" if self.late_bad else "")
        return "disagree" + ("_late" if self.late_bad else "_early")


def expected_tables(g, d):
    """per contig of the genome, in genome order, the entries carrying its name (data order)"""
    by = {n: es for n, es in d.groups}
    return [list(by.get(n, [])) for n in g.order]


# ---------------------------------------------------------------------------------------------
# building library objects from the model

def make_table(kind, entries):
    bnp = core.bnp()
    from bionumpy.datatypes import Interval, BedGraph
    if kind == "interval":
        return Interval([e[0] for e in entries], [e[1] for e in entries], [e[2] for e in entries])
    return BedGraph([e[0] for e in entries], [e[1] for e in entries], [e[2] for e in entries], [e[3] for e in entries])


def dataclass_of(kind):
    core.bnp()
    from bionumpy.datatypes import Interval, BedGraph
    return Interval if kind == "interval" else BedGraph


def make_stream(d):
    """NpDataclassStream over the chunks of d (a public constructor: stream of tables + dataclass)"""
    core.bnp()
    from bionumpy.streams import NpDataclassStream
    tables = [make_table(d.kind, c) for c in d.chunks()]
    return NpDataclassStream(iter(tables), dataclass=dataclass_of(d.kind))


def file_k(tape, d, tag=""):
    """a chunk size (bytes) for the file route that is legal for every line of the file (C01 judges smaller ones)"""
    data = d.bed_bytes()
    longest = max((len(line) + 1 for line in data.split(b"\n")), default=1)
    lo = 2 * longest + 2
    return lo + tape.draw(max(len(data) + 3 - lo, 1), tag + "file.k")


def file_path(d, tag):
    return f"/sim/{tag}.{'bed' if d.kind == 'interval' else 'bdg'}"


# ---------------------------------------------------------------------------------------------
# rendering (total)

def names_of(col):
    out = []
    try:
        for x in col:
            if isinstance(x, str):
                out.append(x)
            elif hasattr(x, "to_string"):
                out.append(x.to_string())
            else:
                out.append(str(x))
    except Exception as e:  # noqa
        return [f"<unrenderable names {type(col).__name__}: {e}>"]
    return out


def ints_of(col):
    try:
        v = core.plain(col)
        if isinstance(v, list):
            return v
        return [v]
    except Exception as e:  # noqa
        return [f"<unrenderable {type(col).__name__}: {e}>"]


def rows_of(table, kind="interval"):
    """table -> list of tuples (name, start, stop[, value]); never raises"""
    try:
        cols = [names_of(table.chromosome), ints_of(table.start), ints_of(table.stop)]
        if kind == "bedgraph":
            cols.append(ints_of(table.value))
        n = len(cols[0])
        if any(len(c) != n for c in cols):
            return [("<ragged table>", repr(cols)[:200])]
        return [tuple(c[i] for c in cols) for i in range(n)]
    except Exception as e:  # noqa
        return [(f"<unrenderable table {type(table).__name__}: {e}>",)]


def rows_from_columns(chrom, start, stop):
    cols = [names_of(chrom), ints_of(start), ints_of(stop)]
    n = len(cols[0])
    if any(len(c) != n for c in cols):
        return [("<ragged columns>", repr(cols)[:200])]
    return [tuple(c[i] for c in cols) for i in range(n)]


def parse_bed(data):
    out = []
    for line in data.decode("latin1").split("\n"):
        if not line:
            continue
        f = line.rstrip("\r").split("\t")
        try:
            out.append((f[0], int(f[1]), int(f[2])))
        except Exception:  # noqa
            out.append(("<bad line>", line))
    return out


def ragged_rows(x):
    try:
        out = []
        for row in x:
            r = row.to_array() if hasattr(row, "to_array") else row
            out.append(tuple(core.plain(r)))
        return out
    except Exception as e:  # noqa
        return [(f"<unrenderable rows {type(x).__name__}: {e}>",)]


# ---------------------------------------------------------------------------------------------
# comparisons (total): -> None or a dict describing the difference

def _msort(rows):
    return sorted(rows, key=lambda r: tuple(str(x) for x in r))


def _row_eq(a, b):
    return len(a) == len(b) and all(core.same(x, y) for x, y in zip(a, b))


def _multiset_eq(a, b):
    a, b = _msort(a), _msort(b)
    return len(a) == len(b) and all(_row_eq(x, y) for x, y in zip(a, b))


def compare_tables(g, exp, got):
    """got: one list of rows per contig, in genome order"""
    if not isinstance(got, list) or len(got) != len(g.order):
        return {"what": "number_of_tables", "expected": len(g.order), "got": len(got) if isinstance(got, list) else repr(got)[:100]}
    for name, e, o in zip(g.order, exp, got):
        if not _multiset_eq(e, o):
            return {"what": "contig_table", "contig": name, "expected": e, "got": o}
    return None


def compare_flat(g, exp, got):
    """got: rows of all contigs concatenated; contigs must come in genome order, each with exactly its entries"""
    by = {n: [] for n in g.order}
    last = -1
    for r in got:
        n = r[0] if r else None
        if n not in by:
            return {"what": "row_of_foreign_contig", "row": list(r), "order": g.order}
        i = g.order.index(n)
        if i < last:
            return {"what": "contigs_not_in_genome_order", "row": list(r), "got": got[:12]}
        last = i
        by[n].append(r)
    for name, e in zip(g.order, exp):
        if not _multiset_eq(e, by[name]):
            return {"what": "contig_entries", "contig": name, "expected": e, "got": by[name]}
    return None


def compare_segments(g, exp_segments, got, what="values"):
    """got: a flat list that must be the concatenation over contigs (genome order) of permutations of exp_segments"""
    total = sum(len(s) for s in exp_segments)
    if not isinstance(got, list) or len(got) != total:
        return {"what": what + "_count", "expected": total, "got": len(got) if isinstance(got, list) else repr(got)[:100],
                "expected_segments": exp_segments, "got_values": got if isinstance(got, list) else None}
    pos = 0
    for name, seg in zip(g.order, exp_segments):
        part = got[pos:pos + len(seg)]
        pos += len(seg)
        a = _msort([(x,) if not isinstance(x, (list, tuple)) else tuple(x) for x in seg])
        b = _msort([(x,) if not isinstance(x, (list, tuple)) else tuple(x) for x in part])
        if not (len(a) == len(b) and all(_row_eq(x, y) for x, y in zip(a, b))):
            return {"what": what + "_of_contig", "contig": name, "expected": seg, "got": part}
    return None


def dense_pileup(g, d):
    """model: per contig (genome order) the number of intervals covering each position"""
    by = {n: es for n, es in d.groups}
    out = []
    for n in g.order:
        v = [0] * g.sizes[n]
        for e in by.get(n, []):
            for p in range(e[1], min(e[2], len(v))):
                v[p] += 1
        out.append(v)
    return out


def dense_track(g, d):
    by = {n: es for n, es in d.groups}
    out = []
    for n in g.order:
        v = [0] * g.sizes[n]
        for e in by.get(n, []):
            for p in range(e[1], min(e[2], len(v))):
                v[p] = e[3]
        out.append(v)
    return out


def compare_dense(g, exp_dense, rows):
    """rows: bedgraph rows (name, start, stop, value) of a whole-genome track, contigs in genome order, tiling each contig"""
    by = {n: None for n in g.order}
    seen = []
    for r in rows:
        if len(r) != 4 or r[0] not in by:
            return {"what": "row_of_foreign_contig", "row": list(r), "order": g.order}
        if r[0] not in seen:
            seen.append(r[0])
        if by[r[0]] is None:
            by[r[0]] = [None] * g.sizes[r[0]]
        v = by[r[0]]
        if not (isinstance(r[1], int) and isinstance(r[2], int) and 0 <= r[1] <= r[2] <= len(v)):
            return {"what": "row_outside_contig", "row": list(r), "size": len(v)}
        for p in range(r[1], r[2]):
            v[p] = r[3]
    if seen != [n for n in g.order if n in seen]:
        return {"what": "contigs_not_in_genome_order", "got": seen, "order": g.order}
    for n, e in zip(g.order, exp_dense):
        o = by[n]
        if o is None:
            return {"what": "contig_without_rows", "contig": n, "expected": e}
        if not core.same(e, o):
            return {"what": "contig_values", "contig": n, "expected": e, "got": o}
    return None


# ---------------------------------------------------------------------------------------------
# sources

class Source:
    """one input of a consumer: DataSpec + how it is presented ("stream" | "file" | "table")"""

    def __init__(self, d, how, k=None, tag="a"):
        self.d, self.how, self.k, self.tag = d, how, k, tag

    def describe(self):
        x = self.d.describe()
        x.update({"how": self.how, "k": self.k})
        return x

    def install(self, fs):
        if self.how == "file":
            fs.put(file_path(self.d, self.tag), self.d.bed_bytes())

    def open_stream(self):
        """-> NpDataclassStream (library calls: run inside core.call)"""
        bnp = core.bnp()
        if self.how == "file":
            return bnp.open(file_path(self.d, self.tag)).read_chunks(self.k)
        if self.how == "table":
            return make_table(self.d.kind, self.d.entries)
        if self.how == "table_strkey":
            # in-memory table of a user-defined entry type whose contig column is declared `str` (ragged text):
            # the group-by behind the synchronisation takes its ragged-key path
            from .streamsim import strkey_class
            e = self.d.entries
            return strkey_class()([x[0] for x in e], [x[1] for x in e], [x[2] for x in e])
        return make_stream(self.d)

    def genomic(self, genome):
        """-> streamed GenomicIntervals / GenomicArray of this source on genome (library calls)"""
        if self.d.kind == "interval":
            if self.how == "file":     # the caller holds core.chunk_knob(self.k) for the whole evaluation
                return genome.read_intervals(file_path(self.d, self.tag), stream=True)
            return genome.get_intervals(make_stream(self.d))
        if self.how == "file":
            return genome.read_track(file_path(self.d, self.tag), stream=True)
        return genome.get_track(make_stream(self.d))


def hashseed_class():
    hs = os.environ.get("PYTHONHASHSEED", "")
    return "hs0" if hs in ("", "0") else "hs" + hs


# ---------------------------------------------------------------------------------------------
# consumers

class Env:
    """what a consumer sees: the model of the genome, the library object built from it, its sources, options"""

    def __init__(self, g, G, sources, fs, opts=None):
        self.g, self.G, self.sources, self.fs, self.opts = g, G, sources, fs, (opts or {})

    @property
    def a(self):
        return self.sources[0]

    @property
    def b(self):
        return self.sources[1]

    def knob(self):
        ks = [s.k for s in self.sources if s.how == "file"]
        return min(ks) if ks else None


class Consumer:
    """run(env) makes the library calls (executed inside core.call); check(env, raw) compares the completed result with
    the expected delivery for COMPATIBLE data and returns None or a difference.
    vulnerable: index of the stream that is not the first one pulled by the library (only for the exclusion of the
    known finding), judged: False for shapes where the caller, not the library, stops pulling."""
    name = ""
    family = "genome"
    kind = "interval"
    nstreams = 1
    vulnerable = None
    judged = True
    hows = ("stream", "file")

    def run(self, env):
        raise NotImplementedError

    def check(self, env, raw):
        raise NotImplementedError

    def reference(self, env):
        return None


def _exp(env, i=0):
    return expected_tables(env.g, env.sources[i].d)


class ComputeGI(Consumer):
    name = "compute_gi"          # bnp.compute(single node)

    def run(self, env):
        bnp = core.bnp()
        return bnp.compute(env.a.genomic(env.G)).get_data()

    def check(self, env, raw):
        return compare_flat(env.g, _exp(env), rows_of(raw))


class ComputeTuple(Consumer):
    name = "compute_tuple"

    def run(self, env):
        bnp = core.bnp()
        gi = env.a.genomic(env.G)
        return bnp.compute((gi.chromosome, gi.start, gi.stop))

    def check(self, env, raw):
        if not isinstance(raw, (list, tuple)) or len(raw) != 3:
            return {"what": "result_shape", "got": repr(raw)[:200]}
        return compare_flat(env.g, _exp(env), rows_from_columns(*raw))


class ComputeDict(Consumer):
    name = "compute_dict"

    def run(self, env):
        bnp = core.bnp()
        gi = env.a.genomic(env.G)
        return bnp.compute({"c": gi.chromosome, "s": gi.start, "e": gi.stop})

    def check(self, env, raw):
        if not isinstance(raw, dict) or sorted(raw.keys()) != ["c", "e", "s"]:
            return {"what": "result_shape", "got": repr(raw)[:200]}
        return compare_flat(env.g, _exp(env), rows_from_columns(raw["c"], raw["s"], raw["e"]))


class PileupData(Consumer):
    name = "pileup_data"         # bnp.compute(intervals.get_pileup().get_data())
    vulnerable = 0               # the chromosome-name node is pulled before the data node

    def run(self, env):
        bnp = core.bnp()
        return bnp.compute(env.a.genomic(env.G).get_pileup().get_data())

    def check(self, env, raw):
        return compare_dense(env.g, dense_pileup(env.g, env.a.d), rows_of(raw, "bedgraph"))


class MaskSum(Consumer):
    name = "mask_sum"            # a ReductionNode

    def run(self, env):
        bnp = core.bnp()
        return bnp.compute(env.a.genomic(env.G).get_mask().sum())

    def check(self, env, raw):
        exp = sum(1 for v in dense_pileup(env.g, env.a.d) for x in v if x > 0)
        got = core.plain(raw)
        return None if core.same(exp, got) else {"what": "covered_positions", "expected": exp, "got": got}


class ForIter(Consumer):
    name = "for_iter"            # an exhaustive for loop over GenomeContext.iter_chromosomes
    hows = ("stream",)

    def run(self, env):
        ctx = env.G.get_genome_context()
        out = []
        for t in ctx.iter_chromosomes(env.a.open_stream(), dataclass_of("interval")):
            out.append(t)
        return out

    def check(self, env, raw):
        return compare_tables(env.g, _exp(env), [rows_of(t) for t in raw])


class TwoTuple(Consumer):
    name = "two_tuple"           # bnp.compute of a tuple over two streamed sources (fan-in of two StreamNodes)
    nstreams = 2
    vulnerable = 1

    def run(self, env):
        bnp = core.bnp()
        x = env.a.genomic(env.G)
        y = env.b.genomic(env.G)
        return bnp.compute((x.chromosome, x.start, x.stop, y.chromosome, y.start, y.stop))

    def check(self, env, raw):
        if not isinstance(raw, (list, tuple)) or len(raw) != 6:
            return {"what": "result_shape", "got": repr(raw)[:200]}
        for i, part in ((0, raw[:3]), (1, raw[3:])):
            d = compare_flat(env.g, _exp(env, i), rows_from_columns(*part))
            if d is not None:
                d["stream"] = "ab"[i]
                return d
        return None


class PileupIndex(Consumer):
    name = "pileup_index"        # reads.get_pileup()[peaks], both streamed (docs: tutorials/subsetting_bed.rst)
    nstreams = 2
    vulnerable = 1

    def run(self, env):
        bnp = core.bnp()
        reads = env.a.genomic(env.G)
        peaks = env.b.genomic(env.G)
        return bnp.compute(reads.get_pileup()[peaks])

    def check(self, env, raw):
        dense = dense_pileup(env.g, env.a.d)
        segs = []
        for v, es in zip(dense, _exp(env, 1)):
            segs.append([tuple(v[e[1]:e[2]]) for e in es])
        return compare_segments(env.g, segs, ragged_rows(raw), "pileup_rows")


class PileupIndexMemory(PileupIndex):
    """reads.get_pileup()[peaks] with the reads streamed and the peaks given as an IN-MEMORY table handed to
    Genome.get_intervals: the library itself walks the in-memory table chromosome by chromosome"""
    name = "pileup_index_memory"

    def run(self, env):
        bnp = core.bnp()
        reads = env.a.genomic(env.G)
        peaks = env.G.get_intervals(make_table("interval", env.b.d.entries))
        return bnp.compute(reads.get_pileup()[peaks])


class PileupIndexOtherGenome(PileupIndex):
    """reads.get_pileup()[peaks] where the in-memory peaks went through a SECOND Genome object that has the same names
    and sizes in the opposite order: the two contig orders are incompatible - the library may refuse (it compares the
    genome contexts) but must not pair the per-contig walks by position"""
    name = "pileup_index_other_genome_order"

    def run(self, env):
        bnp = core.bnp()
        reads = env.a.genomic(env.G)
        sizes = {n: env.g.sizes[n] for n in reversed(env.g.order)}
        g2 = bnp.Genome.from_dict(sizes)
        peaks = g2.get_intervals(make_table("interval", env.b.d.entries))
        return bnp.compute(reads.get_pileup()[peaks])


class TrackData(Consumer):
    name = "track_data"          # bnp.compute(track.get_data())
    kind = "bedgraph"
    vulnerable = 0

    def run(self, env):
        bnp = core.bnp()
        return bnp.compute(env.a.genomic(env.G).get_data())

    def check(self, env, raw):
        return compare_dense(env.g, dense_track(env.g, env.a.d), rows_of(raw, "bedgraph"))


class TrackSum(Consumer):
    name = "track_sum"
    kind = "bedgraph"

    def run(self, env):
        bnp = core.bnp()
        return bnp.compute(env.a.genomic(env.G).sum())

    def check(self, env, raw):
        exp = sum(x for v in dense_track(env.g, env.a.d) for x in v)
        got = core.plain(raw)
        return None if core.same(exp, got) else {"what": "track_sum", "expected": exp, "got": got}


# -- contig-list family: MultiStream / left_join (no ignored names: every name outside the list is unknown)

def _multistream(env):
    core.bnp()
    from bionumpy.streams import MultiStream
    kw = {"ab"[i]: s.open_stream() for i, s in enumerate(env.sources)}
    return MultiStream(env.G, **kw)


class MsExhaust(Consumer):
    name = "ms_exhaust"          # every attribute of a MultiStream iterated to its end by the caller
    family = "contiglist"
    nstreams = 2
    hows = ("stream", "file", "table", "table_strkey")

    def run(self, env):
        ms = _multistream(env)
        its = {"a": iter(ms.a), "b": iter(ms.b)}
        out = {"a": [], "b": []}
        sched = env.opts.get("pull", "ab")
        if sched in ("ab", "ba"):
            for key in sched:
                for t in its[key]:
                    out[key].append(t)
        else:   # alternate until both are exhausted
            live = ["a", "b"]
            while live:
                for key in list(live):
                    try:
                        out[key].append(next(its[key]))
                    except StopIteration:
                        live.remove(key)
        return out

    def check(self, env, raw):
        for i, key in enumerate("ab"):
            d = compare_tables(env.g, _exp(env, i), [rows_of(t) for t in raw[key]])
            if d is not None:
                d["stream"] = key
                return d
        return None


class MsWithDict(Consumer):
    """MultiStream(sizes, a=<stream>, d=<dict with a value per contig>) walked in lock step by the caller's zip, as a
    streamable function over both attributes does.  When the dict lacks a contig the library may refuse (KeyError); if
    the walk completes, every delivered table must sit next to its own contig's value and no entry may be missing"""
    name = "ms_with_dict"
    family = "contiglist"
    hows = ("stream", "file")

    def _missing(self, env):
        order = env.g.order
        n_entries = sum(len(es) for _, es in env.a.d.groups)
        return order[n_entries % len(order)] if (len(order) >= 2 and n_entries % 3 == 0) else None

    def run(self, env):
        core.bnp()
        from bionumpy.streams import MultiStream
        missing = self._missing(env)
        values = {n: 100 + i for i, n in enumerate(env.g.order) if n != missing}
        ms = MultiStream(env.G, a=env.a.open_stream(), d=values)
        return [(t, v) for t, v in zip(ms.a, ms.d)]

    def check(self, env, raw):
        exp = _exp(env)
        got_tables = [rows_of(t) for t, _ in raw]
        missing = self._missing(env)
        d = compare_tables(env.g, exp, got_tables) if missing is None or len(raw) == len(env.g.order) else \
            {"what": "walk_stopped_early", "contigs_delivered": len(raw), "contigs": len(env.g.order), "dict_lacks": missing}
        if d is not None:
            return d
        for i, ((t, v), name) in enumerate(zip(raw, env.g.order)):
            if name != missing and core.plain(v) != 100 + i:
                return {"what": "dict_value_of_another_contig", "contig": name, "expected": 100 + i, "got": core.plain(v),
                        "dict_lacks": missing}
        return None


class _Similarity(Consumer):
    family = "contiglist"
    nstreams = 2
    vulnerable = 1
    hows = ("stream", "file", "table", "table_strkey")
    func = "forbes"

    def _f(self):
        core.bnp()
        from bionumpy import arithmetics
        return getattr(arithmetics, self.func)

    def run(self, env):
        return self._f()(env.G, env.a.open_stream(), env.b.open_stream())

    def reference(self, env):
        """the same public function on the per-contig dict route (IndexedStream: no order assumption)"""
        def dicts(i):
            by = {n: es for n, es in env.sources[i].d.groups}
            return {n: (make_table("interval", by[n]) if by.get(n) else dataclass_of("interval").empty()) for n in env.g.order}
        return core.call(lambda: self._f()(env.G, dicts(0), dicts(1)))

    def model(self, env):
        """the index computed from sets of covered positions (independent of the library's contingency table)"""
        a = b = c = n_total = 0
        for name in env.g.order:
            size = env.g.sizes[name]
            cov = []
            for i in (0, 1):
                es = dict(env.sources[i].d.groups).get(name) or []
                cov.append(set(p for e in es for p in range(max(int(e[1]), 0), min(int(e[2]), size))))
            a += len(cov[0] & cov[1])
            b += len(cov[0] - cov[1])
            c += len(cov[1] - cov[0])
            n_total += size
        num, den = (a * n_total, (a + b) * (a + c)) if self.func == "forbes" else (a, a + b + c)
        if den == 0:
            return float("nan") if num == 0 else float("inf")
        return num / den

    def check(self, env, raw):
        ref = env.opts["reference"]
        got = core.plain(raw)
        if not core.same(core.plain(ref), got):
            return {"what": self.func + "_value", "expected_dict_route": core.plain(ref), "got": got}
        exp = self.model(env)
        if not core.same(exp, got, rel=1e-9):
            return {"what": self.func + "_value_vs_position_sets", "expected": exp, "got": got}
        return None


class Forbes(_Similarity):
    name = "forbes"
    func = "forbes"


class Jaccard(_Similarity):
    name = "jaccard"
    func = "jaccard"


class MsWrite(Consumer):
    name = "ms_write"            # writer.write(synchronised stream)
    family = "contiglist"
    hows = ("stream", "file", "table", "table_strkey")

    def run(self, env):
        bnp = core.bnp()
        ms = _multistream(env)
        w = bnp.open("/sim/out.bed", "w")
        w.write(ms.a)
        w.close()
        return env.fs.get("/sim/out.bed")

    def check(self, env, raw):
        return compare_flat(env.g, _exp(env), parse_bed(raw))


class LeftJoin(Consumer):
    name = "left_join"
    family = "contiglist"
    hows = ("stream", "file")

    def run(self, env):
        bnp = core.bnp()
        from bionumpy.streams.left_join import left_join
        return list(left_join(iter(env.g.ordered_sizes().items()), bnp.groupby(env.a.open_stream(), "chromosome")))

    def check(self, env, raw):
        try:
            names = [str(r[0]) for r in raw]
            sizes = [core.plain(r[1]) for r in raw]
            tables = [[] if r[2] is None else rows_of(r[2]) for r in raw]
        except Exception as e:  # noqa
            return {"what": "result_shape", "got": repr(raw)[:200], "error": repr(e)}
        if names != env.g.order or sizes != [env.g.sizes[n] for n in env.g.order]:
            return {"what": "left_side", "expected": env.g.order, "got": names, "sizes": sizes}
        return compare_tables(env.g, _exp(env), tables)


class CallerZip(Consumer):
    name = "caller_zip"          # the CALLER's zip(ms.a, ms.b): whoever is exhausted first ends it -- reach probe only
    family = "contiglist"
    nstreams = 2
    judged = False
    hows = ("stream",)

    def run(self, env):
        ms = _multistream(env)
        return [(x, y) for x, y in zip(ms.a, ms.b)]

    def check(self, env, raw):
        return None


class EarlyBreak(Consumer):
    name = "early_break"         # the caller stops after the first table -- reach probe only
    family = "contiglist"
    judged = False
    hows = ("stream",)

    def run(self, env):
        ms = _multistream(env)
        out = []
        for t in ms.a:
            out.append(t)
            break
        return out

    def check(self, env, raw):
        return None


CONSUMERS = [ComputeGI(), ComputeTuple(), ComputeDict(), ForIter(), MaskSum(), PileupData(), TwoTuple(), PileupIndex(), PileupIndexMemory(), PileupIndexOtherGenome(),
             TrackData(), TrackSum(), MsExhaust(), MsWithDict(), Forbes(), Jaccard(), MsWrite(), LeftJoin(), CallerZip(), EarlyBreak()]
BY_NAME = {c.name: c for c in CONSUMERS}
