#!/venv/bin/python
"""Run the repository's pinned baseline (guard OFF) on a tree and compare with /root/.vp/BASELINE.json stable_pass.
usage: baseline.py [repo_dir]   exit 0 iff every stable_pass test passed."""
import json, os, subprocess, sys, tempfile, xml.etree.ElementTree as ET
repo = sys.argv[1] if len(sys.argv) > 1 else "/repo"
base = json.load(open("/root/.vp/BASELINE.json"))
import shutil
with tempfile.TemporaryDirectory() as d:
    junit = os.path.join(d, "j.xml")
    # the suite's hypothesis tests write found counter-examples into <repo>/.hypothesis (git-ignored) and replay
    # them for ever after: snapshot and restore it so that running the baseline leaves the tree as it was
    hyp = os.path.join(repo, ".hypothesis")
    had = os.path.isdir(hyp)
    if had:
        shutil.copytree(hyp, os.path.join(d, "hyp"))
    env = {k: v for k, v in os.environ.items() if k not in ("BIONUMPY_VERIF",)}
    env["PYTHONPATH"] = repo
    p = subprocess.run(["/venv/bin/python", "-m", "pytest", "-q", "-p", "no:cacheprovider", "--timeout=900",
                        "--continue-on-collection-errors", "-n", os.environ.get("BASELINE_N", "8"), f"--junitxml={junit}"],
                       cwd=repo, env=env, capture_output=True, text=True)
    shutil.rmtree(hyp, ignore_errors=True)
    if had:
        shutil.copytree(os.path.join(d, "hyp"), hyp)
    passed = set()
    for tc in ET.parse(junit).getroot().iter("testcase"):
        if not any(ch.tag in ("failure", "error", "skipped") for ch in tc):
            passed.add(f"{tc.get('classname')}::{tc.get('name')}")
missing = [t for t in base["stable_pass"] if t not in passed]
print(f"stable_pass={len(base['stable_pass'])} passed_now={len(passed)} missing={len(missing)}")
for m in missing[:40]:
    print("  NOT PASSING:", m)
sys.exit(1 if missing else 0)
