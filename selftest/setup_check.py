#!/venv/bin/python
"""setup_cmd: verify that everything the checks need is importable offline, the SimFS seam is honoured by
bionumpy (seam canary), and a small determinism smoke test passes. Nothing is compiled or fetched."""
import os, sys
VERIF = os.path.dirname(os.path.dirname(os.path.abspath(__file__)))
sys.path.insert(0, VERIF)
from bnpsim import core, simfs, runner
from bnpsim.tape import Tape, rng_for

def main():
    import numpy, npstructures, jsonschema  # noqa
    b = core.bnp()
    # seam canary: a /sim/ path opened through bnp.open must be served by SimFS
    fs = simfs.SimFS()
    fs.put("/sim/canary.bed", b"chr1\t1\t2\n")
    fs.put("/sim/canary.fq.gz", __import__("gzip").compress(b"@a\nAC\n+\n!!\n", mtime=0))
    with simfs.Mount(fs), core.quiet():
        n1 = len(b.open("/sim/canary.bed").read())
        n2 = len(b.open("/sim/canary.fq.gz").read())
    ops = {e[3] for e in fs.log}
    assert n1 == 1 and n2 == 1 and "read" in ops, ("seam canary failed", n1, n2, ops)
    # determinism smoke: same (seed, index) twice in-process -> same digest
    mod = runner.prop_module("C01")
    for i in range(12):
        d = []
        for _ in range(2):
            o = runner.execute(mod, "quick", Tape(rng=rng_for(0, "C01", i)))
            d.append(core.digest([o.status, o.ctx.transcript, sorted(o.ctx.states)]))
        assert d[0] == d[1], ("nondeterministic run", i)
    print("setup ok: bionumpy from", os.path.dirname(b.__file__))

if __name__ == "__main__":
    main()
