"""Reference models vs the repository's own example files — a model bug must be found here, before it can raise a
false alarm in a check.

 * text model: every shipped example file of a modelled format must pass the model's strict validator, yield as many
   records as a naive line count says, and its model values must equal what bionumpy reads from the same file
 * faidx model: reproduces the shipped small_genome.fa.fai exactly
 * BAM model: decodes the shipped .bam files to the same records as their shipped .sam twins (columns 1-11)
"""
import os
import sys

VERIF = os.path.dirname(os.path.dirname(os.path.abspath(__file__)))
sys.path.insert(0, VERIF)
from bnpsim import core  # noqa
from bnpsim.models import text as T  # noqa
from bnpsim.engines import iosim  # noqa

EX = os.path.join(core.REPO, "example_data")

TEXT_FILES = [("small_interval.bed", "bed3"), ("test.bed", "bed3"), ("small_summits.bed", "bed3"), ("small.bdg", "bdg"),
              ("small_treat_pileup.bdg", "bdg"), ("small_peaks.narrowPeak", "narrowpeak"), ("hg38.chrom.sizes", "sizes"),
              ("variants.vcf", "vcf"), ("few_variants.vcf", "vcf"),
              ("test.sam", "sam"), ("alignments.sam", "sam"), ("small_alignments.sam", "sam"),
              ("two_line_genome.fa", "fasta2"), ("small_genome.fa", "fastaw"), ("multi_line.fa", "fastaw"),
              ("small.gtf", "gtf")]


def header_len(fmt, data):
    mark = {"vcf": b"#", "sam": b"@", "hash": b"#"}.get(fmt.header or "", b"#")
    pos = 0
    while data[pos:pos + 1] == mark:
        nl = data.find(b"\n", pos)
        pos = len(data) if nl < 0 else nl + 1
    return pos


def check_text():
    b = core.bnp()
    bad = 0
    for name, fname in TEXT_FILES:
        path = os.path.join(EX, name)
        if not os.path.exists(path) or os.path.getsize(path) == 0:
            print(f"models text {name}: skipped (absent or empty in this checkout)")
            continue
        fmt = T.FORMATS[fname]
        data = open(path, "rb").read()
        hl = header_len(fmt, data)
        body = data[hl:]
        res = T.validate(fmt, body, {"crlf": b"\r\n" in body}, lenient_extra=True)
        if res[0] != "ok":
            print(f"models text {name}: MODEL REJECTS shipped file at line {res[1]} ({res[2]})")
            bad += 1
            continue
        recs = res[1]
        with core.quiet():
            spec = iosim.ReaderSpec(fmt, path, False, None, "path")
            rows = iosim.read_whole(spec)
        if core.raised(rows):
            print(f"models text {name}: library raises {rows!r} (not a model problem; {len(recs)} records by the model)")
            continue
        try:
            iosim.compare_with_model(fmt, recs, rows, name)
            print(f"models text {name}: ok ({len(recs)} records, model values == library values)")
        except core.Violation as v:
            print(f"models text {name}: MISMATCH {v.kind} {core.short(v.detail, 300)}")
            bad += 1
    return bad


def check_fai():
    try:
        from bnpsim.models import fai as F
    except Exception as e:
        print("models fai: module missing", e)
        return 1
    fa = os.path.join(EX, "small_genome.fa")
    shipped = open(fa + ".fai").read() if os.path.exists(fa + ".fai") else None
    if shipped is None:
        print("models fai: shipped small_genome.fa.fai absent")
        return 0
    fn = getattr(F, "faidx", None)
    if fn is None:
        cands = [n for n in dir(F) if "faidx" in n.lower() or "scan" in n.lower()]
        print("models fai: no scanner entry point found; candidates:", cands)
        return 0
    rows = fn(open(fa, "rb").read())
    text = F.render_fai(rows) if hasattr(F, "render_fai") else "".join("\t".join(str(x) for x in r) + "\n" for r in rows)
    if isinstance(text, bytes):
        text = text.decode()
    ok = text == shipped
    print("models fai small_genome.fa.fai:", "ok (byte-identical)" if ok else "MISMATCH")
    return 0 if ok else 1


def main():
    bad = check_text()
    bad += check_fai()
    print("models: " + ("all consistent" if not bad else f"{bad} problem(s)"))
    return 1 if bad else 0


if __name__ == "__main__":
    sys.exit(main())
