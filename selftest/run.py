#!/venv/bin/python
"""Self-tests of the machinery itself.
   ./check selftest determinism [n]   every claimed property: n runs (default 60), each twice in-process, once more in a fresh
                                      interpreter under another PYTHONHASHSEED (same one for C12, where it is a sampled
                                      configuration recorded in the replay file), and the aggregate digest at 1 vs 16 workers
   ./check selftest models            reference models vs the repository's own example files
   ./check selftest sensitivity [id-prefix ...]   apply each filed seeded change (seeded/<id>/patch.diff) to a scratch
                                      worktree of /repo HEAD and confirm that the check of the property it breaks reports
                                      a VIOLATION there (about a minute per change)
"""
import json, os, re, subprocess, sys
VERIF = os.path.dirname(os.path.dirname(os.path.abspath(__file__)))
RUNNER = os.path.join(VERIF, "bnpsim", "runner.py")
PY = sys.executable


def claimed():
    return [c["property_id"] for c in json.load(open(os.path.join(VERIF, "MANIFEST.json")))["checks"]]


def digests(prop, n, hashseed):
    env = dict(os.environ, PYTHONHASHSEED=str(hashseed))
    p = subprocess.run([PY, RUNNER, "digests", prop, "quick", "0", str(n)], capture_output=True, text=True, env=env, timeout=3000)
    line = [l for l in p.stdout.splitlines() if l.startswith("{")]
    if not line:
        return {"error": (p.stdout + p.stderr)[-600:]}
    return json.loads(line[-1])


def determinism(n):
    bad = 0
    for prop in claimed():
        a = digests(prop, n, 0)
        b = digests(prop, n, 0 if prop == "C12" else 12345)
        c = digests(prop, n, 0)
        ok = "digests" in a and a == b == c
        print(f"determinism {prop}: {'ok' if ok else 'FAILED'} ({n} runs x 2 in-process x 3 interpreters)")
        if not ok:
            bad += 1
            for x in (a, b, c):
                if "error" in x:
                    print("   ", x["error"][-300:])
            if "digests" in a and "digests" in b:
                diff = [i for i, (x, y) in enumerate(zip(a["digests"], b["digests"])) if x != y]
                print("    differing run indices:", diff[:10])
    # worker-count independence of the aggregate digest (small fixed run count)
    for prop in ("C01", "C12"):
        ds, counts = [], []
        n_runs = "24" if prop == "C01" else "96"     # one worker must finish them inside the quick tier's wall budget
        for workers in (1, 16):
            evdir = os.path.join(VERIF, "out", "selftest-evidence")
            env = dict(os.environ, BNPSIM_WORKERS=str(workers), BNPSIM_RUNS=n_runs, BNPSIM_REPO="/repo", BNPSIM_EVIDENCE_DIR=evdir)
            p = subprocess.run([os.path.join(VERIF, "check"), prop, "quick"], capture_output=True, text=True, env=env, cwd=VERIF)
            ds.append(json.load(open(os.path.join(evdir, prop + ".json")))["coverage"]["determinism_digest"])
            m = re.search(r"runs=(\d+)", p.stdout)
            counts.append(int(m.group(1)) if m else -1)
        if counts[0] != counts[1]:
            print(f"determinism {prop}: 1 vs 16 workers completed {counts[0]} vs {counts[1]} runs inside the wall budget - not comparable")
            bad += 1
            continue
        ok = ds[0] == ds[1]
        print(f"determinism {prop}: aggregate digest at 1 vs 16 workers {'equal' if ok else 'DIFFERS'} ({counts[0]} runs each)")
        bad += 0 if ok else 1
    return 1 if bad else 0


def models():
    sys.path.insert(0, VERIF)
    from selftest import model_crosscheck
    return model_crosscheck.main()


def sensitivity(ids):
    """every filed seeded change (or the given ids) is applied to a scratch worktree of /repo HEAD; the check of the property
    it breaks must exit 1 with a VIOLATION line there"""
    import glob, re, shutil, tempfile
    metas = sorted(glob.glob(os.path.join(VERIF, "seeded", "*", "meta.json")))
    bad = 0
    for mp in metas:
        m = json.load(open(mp))
        if ids and not any(m["id"].startswith(i) for i in ids):
            continue
        wt = tempfile.mkdtemp(prefix="sens_", dir="/tmp"); os.rmdir(wt)
        subprocess.run(["git", "-C", "/repo", "worktree", "add", "-q", wt, "HEAD"], check=True)
        try:
            ap = subprocess.run(["git", "-C", wt, "apply", os.path.join(os.path.dirname(mp), "patch.diff")], capture_output=True, text=True)
            if ap.returncode:
                ap = subprocess.run(["patch", "-p1", "-F3", "-s", "-i", os.path.abspath(os.path.join(os.path.dirname(mp), "patch.diff"))],
                                    capture_output=True, text=True, cwd=wt)
            if ap.returncode:
                print(f"sensitivity {m['id']}: patch no longer applies to HEAD (skipped): {ap.stderr.strip()[:120]}")
                continue
            env = dict(os.environ, BNPSIM_REPO=wt, VERIF_SEED=os.environ.get("VERIF_SEED", "0"))
            # the check of the property the change was seeded for, unless the filed record says another property's check is the
            # one that catches it (a BAM change seeded under C04 is C16's business)
            prop = m["breaks_property"] if m["breaks_property"] in (m.get("caught_by") or [m["breaks_property"]]) else m["caught_by"][0]
            p = subprocess.run([os.path.join(VERIF, "check"), prop, "quick"], capture_output=True, text=True, env=env, cwd=VERIF)
            ok = p.returncode == 1 and "VIOLATION property=" in p.stdout
            classes = sorted(set(re.findall(r"class=\((.*?)\) seed", p.stdout)))[:2]
            print(f"sensitivity {m['id']}: {'caught' if ok else 'MISSED (exit %d)' % p.returncode} by ./check {prop} quick {classes}")
            bad += 0 if ok else 1
        finally:
            subprocess.run(["git", "-C", "/repo", "worktree", "remove", "--force", wt], capture_output=True)
            shutil.rmtree(wt, ignore_errors=True)
    return 1 if bad else 0


if __name__ == "__main__":
    what = sys.argv[1] if len(sys.argv) > 1 else "determinism"
    if what == "sensitivity":
        sys.exit(sensitivity(sys.argv[2:]))
    if what == "determinism":
        sys.exit(determinism(int(sys.argv[2]) if len(sys.argv) > 2 else 60))
    if what == "models":
        sys.exit(models())
    print(__doc__)
    sys.exit(2)
