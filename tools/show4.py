#!/venv/bin/python
import json,glob,sys
pat = sys.argv[1] if len(sys.argv)>1 else 'C04'
for p in sorted(glob.glob(f'/verif/out/replays/{pat}-*.json')):
    d=json.load(open(p)); v=d['violation']; det=v['detail']
    print('==',p.split('/')[-1],v['oracle'],v['kind'])
    if 'file' in det: print('   data:', det['file']['data'][:160], '| lazy',det['file']['lazy'],'| chunk_rows',det.get('chunk_rows'), '| crlf', det['file']['style']['crlf'])
    print('   ops:', json.dumps(det.get('ops'))[:400])
    for k in ('op','error','expected','got','field','got_text','clause','reason','var','step','first_diff','lazy_result','eager_result','what'):
        if k in det: print('   ',k,':',json.dumps(det[k])[:300])
