#!/venv/bin/python
"""markdown table of /verif/seeded/*/meta.json (which checks catch which seeded change)"""
import glob, json, os
VERIF = os.path.dirname(os.path.dirname(os.path.abspath(__file__)))
rows = []
for p in sorted(glob.glob(os.path.join(VERIF, "seeded", "*", "meta.json"))):
    m = json.load(open(p))
    c = m.get("confirmed", {})
    needs = m.get("needs", "")
    rows.append((m["id"], m["breaks_property"], "yes" if m.get("kept") else "NO",
                 (", ".join(m.get("caught_by", [])) or "— (missed)") + (" (missed at first intake)" if m.get("first_intake") else ""),
                 "; ".join(sorted({k for r in m.get("checks_run", []) if r["exit"] == 1 for k in r["violation_classes"][:2]}))[:110], needs))
print("| seeded change | breaks | confirmed (demo fails with / passes without, baseline passes) | caught by | violation classes reported (first few) |")
print("|---|---|---|---|---|")
for r in rows:
    print(f"| `{r[0]}` | {r[1]} | {r[2]} | {r[3]} | {r[4]} |")
