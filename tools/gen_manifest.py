#!/venv/bin/python
"""Regenerates /verif/MANIFEST.json from the table below and validates it against the schema."""
import json
import os
import sys

VERIF = os.path.dirname(os.path.dirname(os.path.abspath(__file__)))

TECH = "deterministic simulation with fault injection: seeded decision tape drives real bionumpy over a simulated file system / chunk scheduler; "

CLAIMED = {
    "C01": dict(engine="iosim", cat="exploration", ref="§4 C01",
                text="Seeded search over (file, storage, chunk-size schedule, interleaving, injected read error): every k from 1 to size+2 for each sampled file (a third of them with the chunk objects kept and looked at only after the reader was closed; a 'capped' schedule passes max_chunk_size = mult*k + add); chunked read must equal whole read entry by entry, plus byte conservation at the NumpyFileReader level. Sampling, not proof: bounded to files of <= 12 records.",
                note="Trusts SimFS to implement the BufferedReader contract (full reads before EOF), the stdlib gzip module, and read() of the same bytes as the reference (C02 checks that reference against the format model).",
                tech=TECH + "chunk-size sweep + per-call varying k + default-chunk knob + interleaved readers + one-shot EIO; oracle chunked==whole and byte conservation"),
    "C02": dict(engine="iosim", cat="exploration", ref="§4 C02",
                text="Seeded search: generated well-formed files (per-format grammar incl. non-canonical spellings, '.' placeholders, CRLF, missing final newline, gzip members) are parsed whole and under sampled / swept chunk schedules; every column of every batch is compared with the value an independent spec-level model assigns to the text. 19 text formats (BED3/6/12, bedGraph, narrowPeak, chrom.sizes, GTF, GFF3, wig-style, SAM, VCF plain / typed INFO / genotypes, GFA, pairs, two-line and wrapped FASTA, FASTQ). A quarter of the runs parse a differently shaped file of the same format first in the same interpreter (process-global parser caches primed; for typed-INFO VCF also a file declaring the same INFO ids with other Number / Type). Sampling over bounded files (<= 14 records).",
                note="Trusts the reference model bnpsim/models/text.py (plain int()/float()/split; cross-checked against the repo's example files in the self-test) and SimFS.",
                tech=TECH + "store-model oracle (generated records) evaluated on every chunk-schedule-induced batch composition"),
    "C12": dict(engine="syncsim", cat="exploration", ref="§4 C12",
                text="Seeded search over (genome of <= 4 contigs incl. prefix/underscore names, sequence of contig groups in any order with unknown/ignored names, chunking cut set, consumer pull pattern, PYTHONHASHSEED): conservation oracle — a completed evaluation delivered every input entry under its own contig in genome order, otherwise an error was raised. 16 library-driven consumers (compute single/tuple/dict, exhaustive for, mask sum, pileup data/index, bedGraph track data/sum, MultiStream exhaust/write, forbes/jaccard, left_join) are judged; two caller-driven ones (zip, early break) are reach probes.",
                note="Judges only library-driven pulling (a caller's own zip/break is a reach probe). Reference for numeric consumers is the same public function on the per-contig dict route.",
                tech=TECH + "contig-order x cut-set x consumer-pull-pattern schedule with sampled PYTHONHASHSEED per worker; entry-conservation oracle over the delivered history"),
    "C15": dict(engine="iosim", cat="fault_enumeration", ref="§4 C15",
                text="Fault = corruption of stored bytes: for each sampled well-formed file one violation of each listed class (record marker, FASTQ '+' replaced or removed, non-numeric digit, a numeric field that is a lone sign / lone decimal point / empty, foreign strand symbol (replacing, appended to or in front of a valid one), fewer/more columns, a pair of lines whose column deviations cancel, torn tail) is injected at a drawn record position; then all chunk sizes from the largest entry to size+2 x lazy/eager x plain/gzip are enumerated. Every read touching the affected data must raise; FormatException.line_number must lie in the offending record and be identical over the whole schedule.",
                note="The model's strict validator decides whether the corrupted file is malformed and which line offends; outcomes outside the classes the property lists (e.g. truncated FASTQ record) are counted, not judged.",
                tech=TECH + "stored-byte corruption / torn-tail fault injection by violation class x record position, chunk-size sweep, must-raise + line-number-invariance oracle"),
    "C17": dict(engine="iosim", cat="exploration", ref="§4 C17",
                text="Seeded search over FASTA files (1..8 records, any wrap width, full/short/one-base last lines, descriptions, CRLF and missing final newline at low weight) on simulated storage; index built by the library under a small chunk knob (multi-chunk offset accumulation) or supplied by an independent faidx model (with or without a final newline); every interval of short records enumerated, line-break-biased intervals sampled; .fai rows, whole contigs, interval batches (plain and string-encoded fast path), contig lengths and the Genome.from_file route compared with the model. Results of earlier fetches are kept and re-compared after later fetches (no aliasing of returned batches). One-shot EIO in a minority of runs.",
                note="Trusts bnpsim/models/fai.py (cross-checked against the shipped small_genome.fa.fai) and SimFS.",
                tech=TECH + "chunk-knob-perturbed index construction + random-access seek/read over SimFS + one-shot EIO; substring oracle from an independent faidx model"),
    "C03": dict(engine="iosim", cat="exploration", ref="§4 C03",
                text="Seeded search over write histories: rows of an in-memory table (all entry types the property lists, FASTA lengths around multiples of the wrap width) cut into pieces and written by successive write(table) / write(stream of pieces) calls, with close + reopen-append at piece boundaries, plain or gzip target, an interleaved second writer, and a one-shot EIO on a write. Oracles: prefix consistency after every step, final bytes == one write of the whole table (header exactly once), canonical layout per the reference model, read-back == table. Sources of the written table: built in memory, read eagerly, read lazily, concatenated selections (integer list + mask) of a larger lazily / eagerly read file, a lazily read file indexed with a permutation; the whole table is handed to the writer as the object itself, parts as slices; value extremes (63-bit integers, 19-digit floats, empty strings) at raised weight.",
                note="Float text compared by value (rel 1e-6); an empty SAM optional-tags column may be written with or without a trailing tab; typed-INFO VCF tables are not generated (writing them raises, which is not silent).",
                tech=TECH + "writer actors with restart (close/reopen-append) and EIO faults over SimFS; prefix-consistency invariant + single-write refinement oracle"),
    "C11": dict(engine="streamsim", cat="exploration", ref="§4 C11",
                text="Seeded search where the schedule is the cut set: for datasets of n <= 8 (quick) / 10 (thorough) entries all 2^(n-1) chunkings are enumerated per sampled dataset and computation (56 computations incl. mixed reductions and plain members in one compute, the axis of row-wise reductions in five spellings, a streamable function with two streams around a constant, row sums / maxima / means and column means of values under windows of equal and unequal width, track/pileup arithmetic in 12 forms with the constant on either side, location windows by flank / window_size: mean/bincount/quantile/histogram, k-mer counts, groupby, chunk_entries/chunk_lines, streamable user functions, per-chromosome genomic pipelines evaluated with bnp.compute in single/tuple/dict form), in-memory streams and file-backed streams (read_chunks(k) over SimFS); streamed result must equal the same public function on the concatenated table. Cancel and EIO faults in ~12% of runs.",
                note="Reference = bionumpy's own in-memory result; shapes whose in-memory reference raises are counted inconclusive; histogram with data-dependent edges and ragged axis-0 means are not judged.",
                tech=TECH + "exhaustive cut-set schedule per sampled dataset + file-level chunk sizes + cancel/EIO faults; streamed == in-memory oracle"),
    "C04": dict(engine="lazysim", cat="exploration", ref="§4 C04",
                text="Seeded search over operation histories (select by slice/step/mask/integer list with repeats and negatives, concatenate, replace fields, field access, write; <= 12 ops) on tables read lazily, whole or chunked, from generated files with non-canonical text (leading zeros, '+5', scientific floats, CRLF, extra columns, SAM tags, FASTQ '+name'). A row model predicts the exact bytes of selection-only variables and the field texts after concatenation/replacement; every written variable is compared, and every variable is written once more at the end of the history.",
                note="'Only the replaced columns change' is read column-wise: a column replaced in any operand of a concatenation may be re-serialised in all rows (compared by value). Lazy/eager agreement of pure observations is C05's subject. BAM sources are exercised under C16.",
                tech=TECH + "operation-history scheduler on stateful lazy tables (raw buffer / parsed cache / set values) with a row model as oracle"),
    "C16": dict(engine="iosim", cat="exploration", ref="§4 C16",
                text="Seeded search: BAM files produced by an independent struct-level encoder (0..6 references, names up to 254 chars, all nine CIGAR ops, odd/even/zero l_seq over the 16-letter code, qualities incl. the 0xFF convention, all tag types, unmapped and placed-unmapped records) with BGZF blocks cut at drawn offsets (inside records and header) on simulated storage; decoded whole and under a chunk-size sweep (k >= largest record), lazy and eager; interval/strand derivation; write-back (whole / mask / permutation / integer list with repeats and skips over equally sized records / stepped slice / stream, lazy and eager source) decoded again by the independent decoder; CIGAR lengths up to 2^28-1, operation counts up to 65535; write-back of a decoded table is decoded again by the library and compared field by field; one-shot EIO in 1/8 of runs.",
                note="Trusts bnpsim/models/bam.py (validated against the repo's example .bam/.sam twins: byte-exact re-encoding). Chunk sizes below the largest record are probed, not judged.",
                tech=TECH + "BGZF member-layout x chunk-size schedule over SimFS + EIO fault; independent spec-level encoder/decoder as oracle"),
    "C05": dict(engine="lazysim", cat="exploration", ref="§4 C05",
                text="Seeded search: the same operation history (len, field access, slice/mask/integer-list/single index, concatenate, replace, tolist, write; <= 12 ops, whole or chunked origin) is run in lock-step on the lazily and the eagerly read twin of a canonical generated file; every step must give equal values / equal written bytes or fail in both, and every variable is observed (len, all fields, written bytes) in both worlds at the end. Twin formats: BED3/6/12, bedGraph, narrowPeak, SAM, VCF plain and typed INFO, FASTQ, FASTA, and BAM (lazy vs eager decode of the same BGZF bytes); attribute assignment is one of the operations, boolean masks are ndarrays or plain Python lists, and a write may go to the other sequence format (FASTQ -> FASTA, FASTA -> FASTQ).",
                note="Canonical sources only (LF, repr floats, no '.' placeholders, no extra columns) so that C04's intended lazy/eager difference cannot appear; exceptions compare as raised / not raised.",
                tech=TECH + "lock-step twin execution of operation histories on lazy vs eager tables (step-wise equality oracle)"),
    "C20": dict(engine="lazysim", cat="exploration", ref="§4 C20",
                text="Seeded search over operation histories on file chunks (lazy and eager, whole or chunked origin, non-canonical text: signs, scientific floats, list-valued, typed-INFO, genotype-matrix and extra columns): every operation is bracketed — the operands' observable state (length, every field value, the bytes the chunk would write) from a fresh replay of the history prefix must equal their state after the operation, and applying the operation twice must give equal results. An API actor additionally calls about 70 registry functions (argument snapshots come from a twin object that is never handed to the function; arguments include row / column slices and split pieces that are still views) (number<->text conversion in signed, unsigned, decimal and scientific batches; interval arithmetic incl. intersect, count_overlap, jaccard; Genome.get_intervals(...).get_mask/get_pileup/merged/clip/extended_to_size/sorted; table sort_by/concatenate/replace/indexing/tolist; reverse complement, k-mers, minimizers, match_string, translate; encoding changes) on live objects of the run under an argument snapshot.",
                note="File-chunk clause decided by search; the registry clause is a monitor on sampled live objects, not a search over the registry's input space (stated in the evidence assumptions).",
                tech=TECH + "snapshot bracket via fresh prefix replay around every operation of a simulated history + API actor on live objects"),
}

_P = "check designed in DESIGN.md (simulated) but not built yet at this commit; not claimed until its check exists"
PENDING = {}

NOT_APPLICABLE = {
    "C06": "pure function of (byte, alphabet): no storage, stream, history or shared state, so no scheduler or fault decision can change the outcome (DESIGN §4 C06)",
    "C07": "in-memory NumPy-style algebra on encoded arrays; meets no seam a simulator owns (no I/O, stream, clock or cross-caller state); a list-of-strings model check would be model-based testing, not simulation (DESIGN §4 C07)",
    "C08": "interval-set operations are pure functions of their arguments; no schedule, fault or interleaving exists for them (DESIGN §4 C08)",
    "C09": "expression trees over in-memory run-length arrays are pure; their streamed twins are exercised under C11 but agreement with dense NumPy is not a simulation target (DESIGN §4 C09)",
    "C10": "per-chromosome independence of in-memory genome-wide operations is a pure input property; no seam (DESIGN §4 C10)",
    "C13": "sliding-window sequence functions are pure functions of (sequences, window); chunk-independence of count_kmers is one computation of C11 (DESIGN §4 C13)",
    "C14": "reverse complement / translation are lookup-table transformations: pure (DESIGN §4 C14)",
    "C18": "number <-> text conversion functions are pure; nothing a scheduler or fault injector decides can change their result (DESIGN §4 C18)",
    "C19": "in-memory table algebra with no I/O, stream or shared state: no seam (DESIGN §4 C19)",
}


def main():
    checks = []
    for pid, c in sorted(CLAIMED.items()):
        checks.append({
            "property_id": pid,
            "quick_cmd": f"./check {pid} quick",
            "thorough_cmd": f"./check {pid} thorough",
            "evidence_file": f"/verif/evidence/{pid}.json",
            "replay_cmd_template": "./check replay {path}",
            "engine": c["engine"],
            "level_claimed": {"category": c["cat"], "text": c["text"], "design_ref": c["ref"]},
            "level_note": c["note"],
            "technique": c["tech"],
        })
    na = [{"property_id": k, "reason": v} for k, v in sorted({**NOT_APPLICABLE, **PENDING}.items())]
    man = {
        "version": 1,
        "setup_cmd": "./check setup",
        "hooks": {
            "guard": "BIONUMPY_VERIF",
            "enable": "no source hooks are needed: all seams (builtins.open, os.path.isfile, function defaults of read_chunk(s), class-level caches) are replaced in-process by bnpsim; the guard name is reserved",
            "baseline_off_cmd": "cd /repo && /venv/bin/python -m pytest -ra -q -p no:cacheprovider --timeout=900 --continue-on-collection-errors",
            "source_commits": [],
            "add_only": True,
        },
        "engines": [
            {"name": "iosim", "path": "bnpsim/engines/iosim.py", "serves_properties": ["C01", "C02", "C03", "C15", "C16", "C17"],
             "kind_free_text": "reader/writer actors over SimFS (in-memory file system with event log and fault injection), seeded chunk-size scheduler"},
            {"name": "lazysim", "path": "bnpsim/engines/lazysim.py", "serves_properties": ["C04", "C05", "C20"],
             "kind_free_text": "operation histories on lazily read tables with eager twins and a row model"},
            {"name": "streamsim", "path": "bnpsim/engines/streamsim.py", "serves_properties": ["C11"],
             "kind_free_text": "chunk-boundary (cut set) scheduler for streams and computation graphs"},
            {"name": "syncsim", "path": "bnpsim/engines/syncsim.py", "serves_properties": ["C12"],
             "kind_free_text": "contig-group order x cut set x consumer pull pattern scheduler for genome-synchronised streams, per-run PYTHONHASHSEED"},
        ],
        "checks": checks,
        "not_applicable": na,
        "notes": "See DESIGN.md. Exit codes: 0 held / only KNOWN-FINDING lines, 1 VIOLATION, 2 ERROR (harness). known_findings.json lists open findings and fixed ones (with their fix: commits).",
    }
    path = os.path.join(VERIF, "MANIFEST.json")
    with open(path, "w") as f:
        json.dump(man, f, indent=1)
    import jsonschema
    jsonschema.validate(man, json.load(open("/root/.vp/MANIFEST.schema.json")))
    ids = {c["property_id"] for c in checks} | {n["property_id"] for n in na}
    want = {json.loads(l)["id"] for l in open(os.path.join(VERIF, "properties.jsonl"))}
    assert ids == want, (want - ids, ids - want)
    print("MANIFEST.json ok:", len(checks), "claimed,", len(na), "not applicable/pending")


if __name__ == "__main__":
    main()
