#!/venv/bin/python
"""compact view of replay files: tools/show.py out/replays/*.json"""
import json, sys
for p in sys.argv[1:]:
    d = json.load(open(p))
    v = d["violation"]; det = dict(v["detail"])
    f = det.pop("file", None)
    print("==", p.split("/")[-1], d["property"], v["oracle"], v["kind"])
    if f:
        print("   file:", f.get("format"), {k: f[k] for k in ("gzip", "lazy", "route") if k in f}, {k: v for k, v in f.get("style", {}).items() if v})
        print("   data:", f.get("data", "")[:300])
    for k, val in det.items():
        print(f"   {k}: {json.dumps(val)[:300]}")
