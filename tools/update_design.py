#!/venv/bin/python
"""regenerates the two generated tables of DESIGN.md (fixed findings from known_findings.json, seeded changes from seeded/*/meta.json)"""
import json, os, re, subprocess
VERIF = os.path.dirname(os.path.dirname(os.path.abspath(__file__)))
p = os.path.join(VERIF, "DESIGN.md")
s = open(p).read()
kf = json.load(open(os.path.join(VERIF, "known_findings.json")))["findings"]
rows = ["| finding id | property | fix: commit | what failed (from known_findings.json) |", "|---|---|---|---|"]
for e in kf:
    if e["status"] == "fixed":
        what = re.sub(r"^fixed: property=\S+ \S+ ", "", e["what"]).replace("|", "\\|")
        rows.append(f"| `{e['id']}` | {e['property']} | {e['commit']} | {what[:230]} |")
fixed = "\n".join(rows)
seeded = subprocess.run([os.path.join(VERIF, "tools", "seeded_table.py")], capture_output=True, text=True).stdout.strip()
s = re.sub(r"<!-- FIXED_TABLE_BEGIN -->.*?<!-- FIXED_TABLE_END -->", "<!-- FIXED_TABLE_BEGIN -->\n" + fixed.replace("\\", "\\\\") + "\n<!-- FIXED_TABLE_END -->", s, flags=re.S)
s = re.sub(r"<!-- SEEDED_TABLE_BEGIN -->.*?<!-- SEEDED_TABLE_END -->", "<!-- SEEDED_TABLE_BEGIN -->\n" + seeded.replace("\\", "\\\\") + "\n<!-- SEEDED_TABLE_END -->", s, flags=re.S)
open(p, "w").write(s)
print("DESIGN.md tables updated:", len(rows) - 2, "fixed findings;", seeded.count("\n") - 1, "seeded changes")
