#!/venv/bin/python
"""Confirm and file a seeded change:  tools/intake_seeded.py <PROP> <dir with changeN.diff/demoN.py> <N> <id> [extra props...]
Confirms in a scratch worktree of /repo HEAD (outside /repo and /verif): demo passes on the clean tree, fails with the patch,
the pinned baseline still passes with the patch; then runs ./check <PROP> quick (seeds 0,1) against the patched tree and files
everything under /verif/seeded/<id>/ (patch.diff, demo.py, meta.json)."""
import json, os, re, shutil, subprocess, sys, tempfile
VERIF = os.path.dirname(os.path.dirname(os.path.abspath(__file__)))
prop, src, n, sid = sys.argv[1:5]
extra = sys.argv[5:]
patch = os.path.join(src, f"change{n}.diff"); demo = os.path.join(src, f"demo{n}.py")
notes = os.path.join(src, "NOTES.md")
wt = tempfile.mkdtemp(prefix="intake_", dir="/tmp"); os.rmdir(wt)
subprocess.run(["git", "-C", "/repo", "worktree", "add", "-q", wt, "HEAD"], check=True)
meta = {"id": sid, "breaks_property": prop, "source": "independent sub-agent given only the property text and a scratch worktree",
        "repo_head": subprocess.run(["git", "-C", "/repo", "rev-parse", "HEAD"], capture_output=True, text=True).stdout.strip()}
def run_demo():
    env = dict(os.environ, PYTHONPATH=wt)
    # the script's own directory comes first on sys.path: run a copy inside the scratch worktree, so that a demo delivered
    # inside the seeder's (unpatched) worktree imports the tree under test and not the seeder's
    local = os.path.join(wt, "_intake_demo.py")
    shutil.copy(demo, local)
    p = subprocess.run([sys.executable, local], capture_output=True, text=True, cwd=wt, env=env, timeout=600)
    return p.returncode, (p.stdout + p.stderr)[-400:]
try:
    rc_clean, out_clean = run_demo()
    ap = subprocess.run(["git", "-C", wt, "apply", patch], capture_output=True, text=True)
    if ap.returncode:
        # the tree moved on next to the patched lines (a later fix: commit): retry with fuzzy context matching
        ap = subprocess.run(["patch", "-p1", "-F3", "-s", "-i", os.path.abspath(patch)], capture_output=True, text=True, cwd=wt)
        meta["applied_with_fuzz"] = ap.returncode == 0
    if ap.returncode:
        print("patch does not apply:", ap.stderr[:300]); sys.exit(3)
    rc_mut, out_mut = run_demo()
    for attempt in range(3):
        # the suite contains randomised hypothesis tests (tests/property_tests/test_strops.py) that now and then find a
        # counter-example on the clean tree too: a run with missing tests is repeated before the change is blamed
        b = subprocess.run([sys.executable, os.path.join(VERIF, "selftest", "baseline.py"), wt], capture_output=True, text=True,
                           env=dict(os.environ, BASELINE_N="8"))
        if b.returncode == 0 or "test_strops" not in b.stdout:
            break
    base_line = [l for l in b.stdout.splitlines() if l.startswith("stable_pass")]
    meta["confirmed"] = {"demo_on_clean_tree_exit": rc_clean, "demo_with_patch_exit": rc_mut,
                         "demo_with_patch_tail": out_mut.strip().splitlines()[-3:],
                         "baseline_with_patch": base_line[0] if base_line else b.stdout[-200:], "baseline_exit": b.returncode}
    ok = rc_clean == 0 and rc_mut != 0 and b.returncode == 0
    meta["kept"] = ok
    results = []
    for pr in [prop] + extra:
        for s in ("0", "1"):
            env = dict(os.environ, BNPSIM_REPO=wt, VERIF_SEED=s)
            p = subprocess.run([os.path.join(VERIF, "check"), pr, "quick"], capture_output=True, text=True, env=env, cwd=VERIF)
            classes = sorted(set(re.findall(r"class=\((.*?)\) seed", p.stdout)))
            results.append({"check": f"./check {pr} quick", "seed": int(s), "exit": p.returncode, "violation_classes": classes[:6]})
            print(f"  {pr} seed={s} exit={p.returncode} classes={classes[:3]}")
            if p.returncode == 2:
                print("   ", [l for l in p.stdout.splitlines() if l.startswith("ERROR")][:2])
    meta["checks_run"] = results
    meta["caught_by"] = sorted({r["check"].split()[1] for r in results if r["exit"] == 1})
    d = os.path.join(VERIF, "seeded", sid)
    os.makedirs(d, exist_ok=True)
    shutil.copy(patch, os.path.join(d, "patch.diff")); shutil.copy(demo, os.path.join(d, "demo.py"))
    if os.path.exists(notes):
        shutil.copy(notes, os.path.join(d, "NOTES-from-seeder.md"))
    json.dump(meta, open(os.path.join(d, "meta.json"), "w"), indent=1)
    print(f"{sid}: confirmed={ok} demo clean/patched exit={rc_clean}/{rc_mut} baseline={meta['confirmed']['baseline_with_patch']} caught_by={meta['caught_by']}")
finally:
    subprocess.run(["git", "-C", "/repo", "worktree", "remove", "--force", wt])
    shutil.rmtree(wt, ignore_errors=True)
