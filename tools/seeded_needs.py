#!/venv/bin/python
"""adds the 'needs' field (what a seeded change needs in order to manifest) to seeded/*/meta.json"""
import json, os, glob
VERIF = os.path.dirname(os.path.dirname(os.path.abspath(__file__)))
NEEDS = {
 "C01-a": "a gzip file and a chunk size for which a full raw read ends exactly on an entry boundary (e.g. uncompressed size a multiple of k, file ending in a newline): the carry-over slice chunk[-0:] re-delivers the whole chunk, entries come back twice",
 "C01-b": "a wrapped FASTA ending with a newline where end of file is hit exactly at a read boundary while data is pending (gzip: uncompressed size a multiple of k): the end marker '>' arrives as a chunk of its own without line break and is skipped, the last entry is dropped",
 "C01-c": "a plain file whose last entry has no final newline (or any wrapped FASTA) and needs several reads, the last of them full and ending exactly at end of file: last entry dropped",
 "C02-a": "a VCF with sample columns read with VCFBuffer2 where a GT-only sample entry ('./.') is followed by a sample whose first ':' lies inside the gather window: the genotype string spills into the next column",
 "C02-b": "an unsigned integer column with very unequal widths whose FIRST record's field ends at a byte offset smaller than the widest field (e.g. chrom.sizes '1\\t5\\n2\\t248956422\\n'): wrong value in the first record only",
 "C03-a": "a FASTA sequence whose length is an exact non-zero multiple of the line width 80: a blank line is written after it (round trip still equal, only the bytes differ)",
 "C03-b": "three things together: a gzip target, a format with a header, and a close + reopen in append mode: the header is emitted again",
 "C04-a": "a slice selection that does not start at row 0 is written unmodified, and afterwards the PARENT table is parsed or written through field offsets; records of unequal length: in-place compaction shifts the parent's shared offset table",
 "C20-a": "same change as C04-a, seeded independently for C20: writing a slice changes what the parent chunk later returns/writes",
 "C04-b": "np.concatenate with a proper selection as a NON-last operand, then select again or replace + write: offsets of later operands are off by the bytes the earlier operands dropped when compacted",
 "C05-a": "read field f, then bnp.replace(t, f=...), then np.concatenate([other, u]): the stale cached values win over the replacement in lazy mode only",
 "C05-c": "FASTQ only: replace name or sequence (not quality) and write: the '+' line is written as the quality line in lazy mode",
 "C11-a": "chunks of unequal sizes, or three or more chunks: streamed mean weights the merge with the wrong count",
 "C11-b": "a genome whose LAST chromosome(s) carry no data: they get no buffer, streamed pileup/histogram miss their rows (independent of chunk boundaries)",
 "C12-a": "a contig group that arrives after a later contig's group (the earlier contig already got the default empty table), not as last contig, in a stream pulled in lock step behind one that ends first (forbes/jaccard second argument): evaluation completes with the entries dropped",
 "C12-b": "an out-of-place contig group after a later contig's group while the genome's last contig has no data: bnp.compute completes with the entries lost instead of GenomeError",
 "C15-a": "FASTQ marker or '+' violation in a record that is not in the first chunk, with a chunk assembled from more than one raw read (gzip at almost any k, or plain with k smaller than a record): chunk-relative line number",
 "C15-b": "a BED line with a different column count that is the FIRST line of a non-first chunk and is followed by a regular line in the same chunk: reported line one too high and chunk-size dependent",
 "C16-a": "a read name of 219..254 characters: uint8 wrap-around of the CIGAR offset, name/CIGAR/sequence/qualities of that record are read 256 bytes too early",
 "C16-b": "a BAM whose very last byte is 0x0A, or read_chunks(S) with S equal to the size of the largest record starting at a chunk start: the record ending exactly at the buffer end is treated as incomplete",
 "C17-a": "an index built from three or more read chunks (a FASTA above ~10 MB with the shipped chunk size; a handful of records under a small chunk-size knob): offsets of records in later chunks wrong",
 "C17-b": "an interval fetched through the string-encoded fast path whose end falls exactly on a line end (stop % bases_per_line == 0): the last line of the interval is never copied (garbage tail)",
 "C01-d": "SAM with CRLF line ends that mixes records with and without optional tags, and a chunk holding only tag-less records: a shortcut for uniform column counts returns before the carriage return is stripped, quality ends in '\\r' in the chunked read only",
 "C01-e": "VCF with ##INFO declarations, a record whose LAST INFO item has a one-character value (e.g. ';DP=7') and which is the last record of its chunk: off-by-one in the 'too close to the end of the data' guard, info.DP is 0 for the last record of every chunk",
 "C02-c": "typed VCF whose header declares a Flag key that is a proper prefix of another INFO key (DB / DBSNP) and a record that has the longer key but not the flag: the flag is reported True",
 "C02-d": "an unsigned integer column (no field with a sign) holding a value >= 2**53: the digit-matrix product is done in float64 and the value is silently rounded or wrapped",
 "C03-c": "a negative float that needs all 17 significant digits and a three-digit exponent (e.g. -1.2345678901234567e-100): the vectorised text width of 23 forgets the sign, the last exponent digit is cut",
 "C03-d": "a SAM table where ONE write call contains both records with optional tags and records without: the empty-tags column is dropped only when all records lack tags, untagged records get a trailing tab",
 "C04-c": "a negative-step slice covering every record (t[::-1]) of a lazily read table written unmodified: the selection keeps the 'contiguous' flag and the records are written in file order",
 "C04-d": "on a lazy table, access a list-valued column (BED12 block sizes, typed VCF INFO), then replace ANOTHER field and write (or re-parse through a derived table): the separator is added to the stored field lengths in place",
 "C20-c": "same change as C04-d, seeded independently for C20: reading a list-valued field of a lazily read chunk makes that column one byte longer for every later use of the chunk and of slices sharing its length table",
 "C05-d": "u = t[mask] with an all-true boolean ndarray mask, then attribute assignment u.start = ..., then read or write the original t: the lazy fast path returned t itself, so t changes (eager t does not); only visible through attribute assignment",
 "C11-c": "a streamed (stream=True) track indexed with windows where one window's stop equals the chromosome size exactly: the exclusive stop is clipped to size-1, that row is one element short",
 "C11-d": "bnp.histogram(stream, bins=<explicit NON-uniform edges>) on a stream of at least two chunks: chunks after the first are counted on an evenly spaced grid",
 "C15-c": "a float column where every value of the chunk uses scientific notation and the bad value itself contains an 'e' (e.g. '6e-x5'), with at least one record before it in the same chunk: the error offset of the mantissa/exponent sub-array is passed on unchanged, the reported line is too small and chunk-size dependent",
 "C15-d": "a non-numeric score in an Optional[int] column (BED6/narrowPeak) with at least one '.' placeholder before it in the same chunk: the row index among the present rows is not mapped back through the placeholder mask",
 "C20-d": "merge_intervals(t, distance > 0) (also Genome.get_intervals(t).merged(distance)) on a table whose stop column is already non-decreasing (no nested interval): the running maximum is skipped and 'stops += distance' runs on the caller's column",
 "C20-e": "bnp.as_encoded_array(text, QualityEncoding) (or SequenceEntryWithQuality(quality=text)) where text is an in-memory writeable ASCII array: the offset is subtracted in place, the caller's text now holds the codes",
 "C12-c": "grouping column that is ragged text (a `str`-typed field of a user-defined entry type, not an identifier array), a contig name that is a proper prefix of the next group's name (chr1 / chr10), both groups inside one in-memory table or chunk: the length comparison is dropped and the second group is delivered inside the first",
 "C12-d": "an in-memory, genome-encoded table handed to the streamed machinery (streamed_track[in_memory_intervals], get_intervals(table).as_stream()) whose contig groups are contiguous but NOT in genome order: a searchsorted fast path cuts it without checking the order, rows of chr2 are handed to chr1",
 "C16-c": "a CIGAR operation of length >= 2**27 (e.g. 140000000N): the packed words are cast to int32 before shifting, the length comes out negative and the interval end is 2**28 too small",
 "C16-d": "a lazily read BAM selected with a STEPPED slice (t[::2], t[1::2], t[::-1]) and then written: the slice of a packed buffer stays 'contiguous' and the skipped records are written too",
 "C17-c": "interval fetch through the string-encoded fast path when the label list of the intervals' StringEncoding differs from the .fai rows in order or content (sorted labels, a subset, Genome.from_file(sort_names=True)): the per-call index table is replaced by one in file order",
 "C17-d": "a record with exactly ONE sequence line fetched with idx[name], the result KEPT, then another whole contig fetched: the reused read block is returned as a view, the earlier result silently turns into bytes of the later one",
 "C20-b": "an in-memory EncodedRaggedArray with at least one '+'-signed number and NO negative number passed to str_to_int: results stay right, the caller's array is zeroed at the sign",
 "C12-e": "a contig whose group is still open at the end of a chunk and is continued by a following chunk that holds nothing but that contig (a contig spanning three or more chunks): everything the contig received earlier is dropped",
 "C12-f": "a genome that already ignores contigs (Genome.from_file on a chrom.sizes file with '_' names, or a filter_function) passed through with_ignored_added([...]), and data naming a previously ignored contig: the earlier ignore list is forgotten, the entries are delivered or a sort-order GenomeError is raised on compatible data",
 "C03-e": "np.concatenate of lazily read delimited tables of which at least one is a row selection (mask / slice / integer list), written without any field assigned and without slicing the result again: the de-selected records are written too",
 "C03-f": "an eager table with a List[int] column (BED12 block sizes / starts) that is a row selection still holding a ragged view (t[::-1], t[mask], t[[1,0]], t[1:]): digits and commas go to the wrong records or the write raises",
 "C17-e": "a supplied .fai whose last row has no final newline: the last digit of the last record's line-width column is cut off, fetches from that record fail or return bytes from the wrong place",
 "C17-f": "a wrapped FASTA whose last record spans at least one whole read and whose distance from that record's header to the end of the file is an exact multiple of the chunk size, file ending with a newline: the pending last record is dropped",
 "C02-e": "a float column (or its non-scientific / scientific sub-group within one chunk) in which NO value contains a decimal point and at least one is negative (narrowPeak -1 columns, integer-valued bedGraph, '-2e3'): the sign is lost",
 "C02-f": "FASTQ or two-line FASTA with CRLF line ends and no terminator after the last line: the last record loses the last character of its last field",
 "C16-e": "a record without CIGAR operations (unmapped read) followed in the same chunk by a record whose first operation consumes the reference: the CIGAR-less record's interval stop takes over that operation's length",
 "C16-f": "a reordered lazy selection that keeps the first and the last record of an adjacent block in place (t[[0,2,1,3]]) written to BAM: a 'one adjacent run' fast path writes the records in file order",
 "C20-f": "a lazily read VCF chunk with genotype columns (VCFMatrixBuffer / VCFBuffer2) written after bnp.replace and then used again: the record-end table is decremented in place on every modified write",
 "C20-g": "Genome.get_intervals(table).clip() with at least one interval that starts before 0 or stops beyond its chromosome: the clipped coordinates are assigned into the caller's table",
 "C11-e": "arithmetic on a streamed track with a plain constant to the LEFT of a non-commutative operator (3 - p, 12 // (p + 1), 2 ** p, np.subtract(3, p)): operands swapped in the streamed form only",
 "C11-f": "genome.read_intervals(f, stream=True).get_location('start').get_windows(window_size=<even>): streamed windows are one base wider than the in-memory ones",
 "C15-e": "a line with a different column count that is the only record (or one of uniformly deviating records) of a non-first chunk: the line counter is advanced before the column check, the reported line is too high and chunk-size dependent",
 "C15-f": "two column-count violations in one chunk whose deviations cancel (a 5-column and a 3-column line in a 4-column BED): a total-delimiter shortcut accepts the chunk, a table is delivered or another error surfaces on the wrong line",
 "C04-e": "a lazily read BAM selected with a non-decreasing integer list that repeats a record and skips records of exactly the same total size (t[[0,0,2]] with equally long records 0 and 1), written unmodified: the span fast path writes records 0,1,2",
 "C04-f": "a BAM whose uncompressed record stream ends with byte 0x0A (last record without tags and last base quality 10): the last record is taken for incomplete and silently dropped",
 "C01-f": "read_chunk(s)(min_chunk_size, max_chunk_size=m) on a file with an entry longer than m when exactly m bytes are pending: a zero-byte read is taken for the end of the file, the stream ends early or hands out a truncated entry",
 "C01-g": "FASTQ or two-line FASTA with CRLF line ends and no terminator after the last line: CRLF is detected at the buffer tail, every entry sharing the last chunk keeps its '\\\\r' (chunk-size dependent)",
}
# seeded changes that the checks as they stood at the first intake did NOT catch, and what was changed afterwards
FIRST_MISSED = {
 "C20-b": "first intake: missed by C20 (the API actor's integer texts always contained a negative number); fixed by calling the converters on '+'-signed-only / unsigned / positive-decimal / scientific batches",
 "C17-d": "first intake: missed by C17 (each idx[name] was compared straight away); fixed by keeping the fetched contigs and comparing them again after all later fetches",
 "C16-c": "first intake: missed by C16 (generated CIGAR lengths stopped at 200000); fixed by drawing lengths around 2**27 and up to 2**28-1",
 "C16-d": "first intake: missed by C16 (write-back selections were masks and permutations), caught by C05's BAM twin; fixed by a stepped-slice write mode in C16",
 "C12-c": "first intake: missed by C12 and C11 (all generated tables used identifier-array contig columns); fixed by in-memory sources of a user-defined entry type with a `str` contig column (table_strkey)",
 "C12-d": "first intake: missed by C12 and C11 (in-memory tables were only handed to the contig-list consumers); fixed by the pileup_index_memory consumer (streamed pileup indexed with in-memory intervals given to Genome.get_intervals)",
 "C17-e": "first intake: missed by C17 (the model always rendered the supplied .fai with a final newline); fixed by supplying it without one in a quarter of the model-index runs",
 "C02-e": "first intake: missed by C02 (every generated negative float had a decimal point); fixed by float columns without any decimal point, negative integers-as-floats and negative dot-less scientific mantissas in the text model",
 "C20-f": "first intake: missed by C20, C04 and C05 (the genotype-matrix VCF format was not among their sources); fixed by adding it to C20's sources",
 "C20-g": "first intake: missed by C20 (the API actor's intervals always lay inside the chromosome); fixed by an overhanging-interval argument builder for clip() / extended_to_size().clip()",
 "C11-e": "first intake: missed by C11 (the only arithmetic computation was track*2+1); fixed by drawing the expression from twelve forms with the constant on either side of commutative and non-commutative operators, for tracks and pileups",
 "C11-f": "first intake: missed by C11 (no computation used get_location / get_windows); fixed by the location_windows computation (flank and odd / even window_size)",
 "C15-f": "first intake: missed by C15 (one violation per file, as the property's quantifier says); fixed by the columns_two class: a line with a column more and another with a column fewer in one file",
 "C04-e": "first intake: missed by C04, C16 and C05 (C04 has no BAM sources; C16's reordering selections were permutations without repeats and records rarely had equal sizes); fixed in C16 by cloned records of equal size and non-decreasing integer-list selections with repeats and skips",
 "C01-f": "first intake: missed by C01 (max_chunk_size was never passed); fixed by the capped schedule: every k with max_chunk_size = mult*k + add",
 "C03-e": "first intake: missed by C03 and C20 (C03 wrote slices of its table, which re-select; its tables were never concatenated selections), caught by C04 and C05; fixed in C03 by tables built as concatenated selections of a larger file and by handing the whole table to the writer as the object itself",
}
for p in sorted(glob.glob(os.path.join(VERIF, "seeded", "*", "meta.json"))):
    m = json.load(open(p))
    fm = FIRST_MISSED.get("-".join(m["id"].split("-")[:2]))
    if fm:
        m["first_intake"] = fm
    key = "-".join(m["id"].split("-")[:2])
    if key in NEEDS:
        m["needs"] = NEEDS[key]
    m.setdefault("what_was_run", "tools/intake_seeded.py: scratch worktree of /repo HEAD outside /repo and /verif; demo on clean tree (exit 0), demo with patch (exit != 0), selftest/baseline.py on the patched tree (all 366 stable tests pass), then ./check <property> quick with BNPSIM_REPO=<patched worktree> for VERIF_SEED 0 and 1; worktree removed afterwards")
    json.dump(m, open(p, "w"), indent=1)
    print(m["id"], "needs" in m)
