#!/venv/bin/python
"""adds the 'needs' field (what a seeded change needs in order to manifest) to seeded/*/meta.json"""
import json, os, glob
VERIF = os.path.dirname(os.path.dirname(os.path.abspath(__file__)))
NEEDS = {
 "C01-a": "a gzip file and a chunk size for which a full raw read ends exactly on an entry boundary (e.g. uncompressed size a multiple of k, file ending in a newline): the carry-over slice chunk[-0:] re-delivers the whole chunk, entries come back twice",
 "C01-b": "a wrapped FASTA ending with a newline where end of file is hit exactly at a read boundary while data is pending (gzip: uncompressed size a multiple of k): the end marker '>' arrives as a chunk of its own without line break and is skipped, the last entry is dropped",
 "C01-c": "a plain file whose last entry has no final newline (or any wrapped FASTA) and needs several reads, the last of them full and ending exactly at end of file: last entry dropped",
 "C02-a": "a VCF with sample columns read with VCFBuffer2 where a GT-only sample entry ('./.') is followed by a sample whose first ':' lies inside the gather window: the genotype string spills into the next column",
 "C02-b": "an unsigned integer column with very unequal widths whose FIRST record's field ends at a byte offset smaller than the widest field (e.g. chrom.sizes '1\\t5\\n2\\t248956422\\n'): wrong value in the first record only",
 "C03-a": "a FASTA sequence whose length is an exact non-zero multiple of the line width 80: a blank line is written after it (round trip still equal, only the bytes differ)",
 "C03-b": "three things together: a gzip target, a format with a header, and a close + reopen in append mode: the header is emitted again",
 "C04-a": "a slice selection that does not start at row 0 is written unmodified, and afterwards the PARENT table is parsed or written through field offsets; records of unequal length: in-place compaction shifts the parent's shared offset table",
 "C20-a": "same change as C04-a, seeded independently for C20: writing a slice changes what the parent chunk later returns/writes",
 "C04-b": "np.concatenate with a proper selection as a NON-last operand, then select again or replace + write: offsets of later operands are off by the bytes the earlier operands dropped when compacted",
 "C05-a": "read field f, then bnp.replace(t, f=...), then np.concatenate([other, u]): the stale cached values win over the replacement in lazy mode only",
 "C05-c": "FASTQ only: replace name or sequence (not quality) and write: the '+' line is written as the quality line in lazy mode",
 "C11-a": "chunks of unequal sizes, or three or more chunks: streamed mean weights the merge with the wrong count",
 "C11-b": "a genome whose LAST chromosome(s) carry no data: they get no buffer, streamed pileup/histogram miss their rows (independent of chunk boundaries)",
 "C12-a": "a contig group that arrives after a later contig's group (the earlier contig already got the default empty table), not as last contig, in a stream pulled in lock step behind one that ends first (forbes/jaccard second argument): evaluation completes with the entries dropped",
 "C12-b": "an out-of-place contig group after a later contig's group while the genome's last contig has no data: bnp.compute completes with the entries lost instead of GenomeError",
 "C15-a": "FASTQ marker or '+' violation in a record that is not in the first chunk, with a chunk assembled from more than one raw read (gzip at almost any k, or plain with k smaller than a record): chunk-relative line number",
 "C15-b": "a BED line with a different column count that is the FIRST line of a non-first chunk and is followed by a regular line in the same chunk: reported line one too high and chunk-size dependent",
 "C16-a": "a read name of 219..254 characters: uint8 wrap-around of the CIGAR offset, name/CIGAR/sequence/qualities of that record are read 256 bytes too early",
 "C16-b": "a BAM whose very last byte is 0x0A, or read_chunks(S) with S equal to the size of the largest record starting at a chunk start: the record ending exactly at the buffer end is treated as incomplete",
 "C17-a": "an index built from three or more read chunks (a FASTA above ~10 MB with the shipped chunk size; a handful of records under a small chunk-size knob): offsets of records in later chunks wrong",
 "C17-b": "an interval fetched through the string-encoded fast path whose end falls exactly on a line end (stop % bases_per_line == 0): the last line of the interval is never copied (garbage tail)",
 "C20-b": "an in-memory EncodedRaggedArray with at least one '+'-signed number and NO negative number passed to str_to_int: results stay right, the caller's array is zeroed at the sign",
}
for p in sorted(glob.glob(os.path.join(VERIF, "seeded", "*", "meta.json"))):
    m = json.load(open(p))
    key = "-".join(m["id"].split("-")[:2])
    if key in NEEDS:
        m["needs"] = NEEDS[key]
    m.setdefault("what_was_run", "tools/intake_seeded.py: scratch worktree of /repo HEAD outside /repo and /verif; demo on clean tree (exit 0), demo with patch (exit != 0), selftest/baseline.py on the patched tree (all 366 stable tests pass), then ./check <property> quick with BNPSIM_REPO=<patched worktree> for VERIF_SEED 0 and 1; worktree removed afterwards")
    json.dump(m, open(p, "w"), indent=1)
    print(m["id"], "needs" in m)
