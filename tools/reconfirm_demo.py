#!/venv/bin/python
"""Re-run the demonstration of filed seeded changes:  tools/reconfirm_demo.py <id> [...]
(scratch worktree of /repo HEAD; demo copied into it so that it imports that tree; clean run, patched run; meta.json updated)"""
import json, os, shutil, subprocess, sys, tempfile
VERIF = os.path.dirname(os.path.dirname(os.path.abspath(__file__)))
for sid in sys.argv[1:]:
    d = os.path.join(VERIF, "seeded", sid)
    meta = json.load(open(os.path.join(d, "meta.json")))
    wt = tempfile.mkdtemp(prefix="reconf_", dir="/tmp"); os.rmdir(wt)
    subprocess.run(["git", "-C", "/repo", "worktree", "add", "-q", wt, "HEAD"], check=True)
    try:
        local = os.path.join(wt, "_intake_demo.py")
        shutil.copy(os.path.join(d, "demo.py"), local)
        def run():
            p = subprocess.run([sys.executable, local], capture_output=True, text=True, cwd=wt, env=dict(os.environ, PYTHONPATH=wt), timeout=600)
            return p.returncode, (p.stdout + p.stderr)[-400:]
        rc_clean, _ = run()
        ap = subprocess.run(["git", "-C", wt, "apply", os.path.join(d, "patch.diff")], capture_output=True, text=True)
        if ap.returncode:
            print(sid, "patch does not apply"); continue
        rc_mut, out = run()
        c = meta["confirmed"]
        c["demo_on_clean_tree_exit"], c["demo_with_patch_exit"], c["demo_with_patch_tail"] = rc_clean, rc_mut, out.strip().splitlines()[-3:]
        meta["kept"] = rc_clean == 0 and rc_mut != 0 and c.get("baseline_exit") == 0
        c["demo_rerun_note"] = "demo re-run from a copy inside the scratch worktree (the first intake ran it from the seeder's directory, which Python puts in front of PYTHONPATH)"
        json.dump(meta, open(os.path.join(d, "meta.json"), "w"), indent=1)
        print(sid, "clean/patched exit", rc_clean, rc_mut, "kept", meta["kept"])
    finally:
        subprocess.run(["git", "-C", "/repo", "worktree", "remove", "--force", wt])
