#!/venv/bin/python
"""Run checks against a seeded change without touching /repo:
   tools/try_seeded.py <patch.diff> [C01 C02 ...] [--tier quick|thorough] [--seeds 0,1]
A scratch git worktree of /repo's HEAD is made under /tmp, the patch applied, each check run with
BNPSIM_REPO=<worktree>, and the worktree removed.  Prints one line per (property, seed):
   <prop> seed=<s> exit=<rc> classes=[...]"""
import json, os, re, subprocess, sys, tempfile, shutil
VERIF = os.path.dirname(os.path.dirname(os.path.abspath(__file__)))
args = sys.argv[1:]
tier, seeds = "quick", ["0"]
if "--tier" in args:
    i = args.index("--tier"); tier = args[i + 1]; del args[i:i + 2]
if "--seeds" in args:
    i = args.index("--seeds"); seeds = args[i + 1].split(","); del args[i:i + 2]
patch = os.path.abspath(args[0])
props = args[1:] or [c["property_id"] for c in json.load(open(os.path.join(VERIF, "MANIFEST.json")))["checks"]]
wt = tempfile.mkdtemp(prefix="try_seeded_", dir="/tmp")
os.rmdir(wt)
subprocess.run(["git", "-C", "/repo", "worktree", "add", "-q", wt, "HEAD"], check=True)
try:
    r = subprocess.run(["git", "-C", wt, "apply", patch], capture_output=True, text=True)
    if r.returncode != 0:
        # the tree moved on next to the patched lines (a later fix: commit): retry with fuzzy context matching
        r = subprocess.run(["patch", "-p1", "-F3", "-s", "-i", patch], capture_output=True, text=True, cwd=wt)
        if r.returncode == 0:
            print("(applied with fuzz)")
    if r.returncode != 0:
        print("PATCH DOES NOT APPLY:", r.stderr.strip()[:300]); sys.exit(3)
    for prop in props:
        for s in seeds:
            env = dict(os.environ, BNPSIM_REPO=wt, VERIF_SEED=s)
            p = subprocess.run([os.path.join(VERIF, "check"), prop, tier], capture_output=True, text=True, env=env, cwd=VERIF)
            classes = sorted(set(re.findall(r"class=\((.*?)\) seed", p.stdout)))
            replays = re.findall(r"^VIOLATION property=\S+ replay=(\S+)", p.stdout, re.M)
            print(f"{prop} seed={s} exit={p.returncode} classes={classes[:4]} replays={[os.path.basename(x) for x in replays[:2]]}")
            if p.returncode == 2:
                print("   ", "\n    ".join(l for l in p.stdout.splitlines() if l.startswith("ERROR"))[:600])
            sys.stdout.flush()
finally:
    subprocess.run(["git", "-C", "/repo", "worktree", "remove", "--force", wt])
    shutil.rmtree(wt, ignore_errors=True)
